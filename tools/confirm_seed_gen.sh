#!/bin/sh
# usage: confirm_seed_gen.sh <seed-dir> <demo-test-name> <example package dir, e.g. proto3/googlev2>
# Confirms a seeded TEMPLATE change in a scratch worktree: root module and plug-in build and
# pass their tests with it; with the examples REGENERATED from the changed templates the demo
# fails; regenerated from the unchanged templates it passes.  Removes the worktree.
set -u
seed=$1; demo=$2; pkg=$3
export GOFLAGS=-mod=mod GOPROXY=off GOSUMDB=off GOTOOLCHAIN=local
wt=$(mktemp -d /tmp/confirm.XXXX)
rmdir $wt
git -C /repo worktree add -q --detach $wt HEAD || exit 2
cd $wt
git apply $seed/patch.diff || { echo "PATCH DOES NOT APPLY"; git -C /repo worktree remove --force $wt; exit 2; }
suite=$( (go build ./... && go test -vet=off -count=1 ./... && cd cmd/protoc-gen-fastmarshal && go build ./... && go test -vet=off -count=1 ./...) >/tmp/confirm_suite.log 2>&1 && echo pass || echo FAIL)
sh /verif/tools/regen_examples.sh $wt >/tmp/confirm_regen.log 2>&1 || echo "REGENERATION FAILED (see /tmp/confirm_regen.log)"
cp $seed/demo_test.go example/$pkg/zz_demo_test.go
with=$( (cd example && go test -vet=off -count=1 -run "^$demo\$" ./$pkg/) >/tmp/confirm_with.log 2>&1 && echo pass || echo fail)
git apply -R $seed/patch.diff
sh /verif/tools/regen_examples.sh $wt >/tmp/confirm_regen.log 2>&1
without=$( (cd example && go test -vet=off -count=1 -run "^$demo\$" ./$pkg/) >/tmp/confirm_without.log 2>&1 && echo pass || echo fail)
echo "suite-with-change=$suite demo-with-change=$with demo-without-change=$without"
cd /; git -C /repo worktree remove --force $wt
[ "$suite" = pass ] && [ "$with" = fail ] && [ "$without" = pass ]
