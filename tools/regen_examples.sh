#!/bin/sh
# Regenerates /repo/example/**/**.pb.fm.go from the plug-in built out of the working tree
# (protoc-free, via tools/genfm).  Used only when a `fix:` commit changes the templates.
set -e
export GOFLAGS=-mod=mod GOPROXY=off GOSUMDB=off GOTOOLCHAIN=local
REPO=${1:-/repo}
T=$(mktemp -d /tmp/regen.XXXXXX)
trap 'rm -rf "$T"' EXIT
(cd "$REPO/cmd/protoc-gen-fastmarshal" && go build -o "$T/plugin" .)
mkdir "$T/genfm"
cp /verif/tools/genfm/main.go "$T/genfm/"
cat > "$T/genfm/go.mod" <<M
module genfm

go 1.21

require (
	github.com/CrowdStrike/csproto v0.0.0
	github.com/CrowdStrike/csproto/example v0.0.0
	github.com/gogo/protobuf v1.3.2
	google.golang.org/protobuf v1.36.4
)

replace github.com/CrowdStrike/csproto => $REPO

replace github.com/CrowdStrike/csproto/example => $REPO/example
M
cp "$REPO/example/go.sum" "$T/genfm/go.sum"
(cd "$T/genfm" && go build -o "$T/genfm.bin" .)
"$T/genfm.bin" "$T/plugin" "$T/out"
(cd "$T/out" && find . -name '*.pb.fm.go' | while read f; do cp "$f" "$REPO/example/$f"; done)
echo regenerated
