#!/usr/bin/env python3
"""Writes /verif/MANIFEST.json from propmap.json + the table below (kept in one place so the
manifest, the property map and the not-applicable list cannot drift apart)."""
import json, os
root = os.path.dirname(os.path.dirname(os.path.abspath(__file__)))
pm = json.load(open(os.path.join(root, 'propmap.json')))
props = [json.loads(l) for l in open(os.path.join(root, 'properties.jsonl'))]
claims = json.load(open(os.path.join(root, 'claims.json')))
checks, na = [], []
for p in props:
    pid = p['id']
    c = claims.get(pid, {})
    if pid in pm and c.get('claimed'):
        checks.append({
            "property_id": pid,
            "quick_cmd": "./check %s quick" % pid,
            "thorough_cmd": "./check %s thorough" % pid,
            "evidence_file": "/verif/evidence/%s.json" % pid,
            "replay_cmd_template": "./check --replay {path}",
            "engine": "gocv",
            "level_claimed": {"category": c.get("category", "proof"), "text": c["text"], "design_ref": c.get("design_ref", "DESIGN.md §5 " + pid)},
            "level_note": c["note"],
            "technique": c.get("technique", "contract-based deductive verification: weakest-precondition style VCs generated from go/ssa of the real code against //@ contracts, discharged by z3/cvc5"),
        })
    else:
        na.append({"property_id": pid, "reason": c.get("na_reason", "not claimed: no contract-based check has been built for this property yet")})
m = {
    "version": 1,
    "setup_cmd": "sh ./setup.sh",
    "hooks": {
        "guard": "verif",
        "enable": "-tags=verif (contract files **/contracts*_verif.go (root package and lazyproto) are comment-only Go files behind //go:build verif; gocv loads /repo with that tag)",
        "baseline_off_cmd": "cd /repo && GOFLAGS=-mod=mod go test -vet=off -count=1 ./...",
        "source_commits": claims.get("_hook_commits", []),
        "add_only": True,
    },
    "engines": [{
        "name": "gocv",
        "path": "/verif/gocv",
        "serves_properties": [c["property_id"] for c in checks],
        "kind_free_text": "verification-condition generator for Go written for this task: go/ssa of the real code -> quantifier-free bit-vector/UF obligations (contracts, loop invariants, frames, no-panic sweep), raced on z3 4.8.12, z3 5.1.0 and cvc5 1.0; counterexamples replayed on the real code through go test -overlay",
    }],
    "checks": checks,
    "not_applicable": na,
    "notes": "See DESIGN.md. Every check reloads /repo's working tree, regenerates all obligations and re-proves them; evidence is rewritten per run. known_findings.json lists repaired defects (status fixed: suppress nothing).",
}
json.dump(m, open(os.path.join(root, 'MANIFEST.json'), 'w'), indent=1)
print("MANIFEST.json:", len(checks), "checks,", len(na), "not applicable")
