#!/bin/sh
# usage: selftest.sh [tier] [name-filter]      (run from anywhere; the whole corpus takes about an hour)
# Must-fail / must-pass corpus: every change under seeded/ must make its property's check
# exit 1 with a VIOLATION line; every change under selftest/refactors/ must leave it at exit 0.
# Each change is applied to a scratch worktree of /repo (VERIF_REPO), never to /repo itself;
# evidence files are put back afterwards (they must describe the unchanged tree).
tier=${1:-quick}
filter=${2:-}
cd /verif
export GOFLAGS=-mod=mod GOPROXY=off GOSUMDB=off GOTOOLCHAIN=local
wt=$(mktemp -d /tmp/selftest.XXXX); rmdir $wt
git -C /repo worktree add -q --detach $wt HEAD || exit 2
mkdir -p /tmp/selftest_evidence; cp evidence/*.json /tmp/selftest_evidence/ 2>/dev/null
bad=0
for d in seeded/* selftest/canaries/* selftest/refactors/*; do
  [ -f $d/patch.diff ] || continue
  case "$d" in *"$filter"*) ;; *) continue;; esac
  prop=$(python3 -c "import json,sys; m=json.load(open('$d/meta.json')); print(m.get('check_with', m['property']))")
  expect=$(python3 -c "import json,sys; print(json.load(open('$d/meta.json')).get('expect','fail'))")
  (cd $wt && git checkout -q -- . && git apply /verif/$d/patch.diff) || { echo "SELFTEST $d: patch does not apply"; bad=1; continue; }
  VERIF_REPO=$wt ./check $prop $tier > /tmp/selftest_run.log 2>&1
  rc=$?
  n=$(grep -c '^VIOLATION' /tmp/selftest_run.log)
  first=$(grep -m1 '^  obligation' /tmp/selftest_run.log | cut -c1-160)
  if [ "$expect" = fail ] && [ $rc -eq 1 ] && [ $n -gt 0 ]; then echo "SELFTEST ok   $d ($prop): detected, $n violation line(s); $first"
  elif [ "$expect" = pass ] && [ $rc -eq 0 ]; then echo "SELFTEST ok   $d ($prop): no alarm"
  elif [ "$expect" = miss ] && [ $rc -eq 0 ]; then echo "SELFTEST miss $d ($prop): NOT detected - a documented gap (DESIGN.md 0.7), not counted as a failure of the corpus"
  elif [ "$expect" = miss ] && [ $rc -eq 1 ] && [ $n -gt 0 ]; then echo "SELFTEST ok   $d ($prop): detected although recorded as a gap, $n violation line(s); $first"
  else echo "SELFTEST FAIL $d ($prop): expected $expect, exit=$rc violations=$n"; bad=1; fi
done
cp /tmp/selftest_evidence/*.json evidence/ 2>/dev/null; rm -rf /tmp/selftest_evidence
git -C /repo worktree remove --force $wt
exit $bad
