#!/bin/sh
# usage: seedcheck.sh <seed-dir> <property> [tier]
# Applies a seeded change to /repo, runs the property's check, undoes the change.
# Exit 0 when the check reports a violation (the change is detected).
seed=$1; prop=$2; tier=${3:-quick}
cd /verif
git -C /repo apply "$seed/patch.diff" || { echo "patch does not apply"; exit 2; }
cp evidence/$prop.json /tmp/seedcheck_evidence_$prop.json 2>/dev/null
./check "$prop" "$tier" > /tmp/seedcheck_$prop.log 2>&1
rc=$?
git -C /repo checkout -- .
# the evidence file must describe the unchanged tree: put the previous one back
cp /tmp/seedcheck_evidence_$prop.json evidence/$prop.json 2>/dev/null
grep -E "^VIOLATION|^KNOWN|STALE|obligation " /tmp/seedcheck_$prop.log | head -12
echo "check exit=$rc"
[ $rc -eq 1 ]
