module genfm

go 1.21

require (
	github.com/CrowdStrike/csproto v0.0.0
	github.com/CrowdStrike/csproto/example v0.0.0
	github.com/gogo/protobuf v1.3.2
	google.golang.org/protobuf v1.36.4
)

require github.com/golang/protobuf v1.5.4 // indirect

replace github.com/CrowdStrike/csproto => /repo

replace github.com/CrowdStrike/csproto/example => /repo/example
