// genfm regenerates the fast-marshal code of the repository's example schemas WITHOUT
// protoc: the FileDescriptorProtos embedded in the checked-in *.pb.go files are taken from
// the runtime registries, wrapped in CodeGeneratorRequests with the options of the
// repository's Makefile, and fed to the plug-in binary built from the working tree.
//
//	genfm <plugin-binary> <outdir> [-compare <example dir>]
//
// Output: <outdir>/<family>/<file>.pb.fm.go
package main

import (
	"bytes"
	"compress/gzip"
	"fmt"
	"io"
	"os"
	"os/exec"
	"path/filepath"
	"sort"

	gogoproto "github.com/gogo/protobuf/proto"
	"google.golang.org/protobuf/proto"
	"google.golang.org/protobuf/reflect/protodesc"
	"google.golang.org/protobuf/reflect/protoreflect"
	"google.golang.org/protobuf/reflect/protoregistry"
	"google.golang.org/protobuf/types/descriptorpb"
	"google.golang.org/protobuf/types/pluginpb"

	_ "github.com/CrowdStrike/csproto/example/permessage/gogo"
	_ "github.com/CrowdStrike/csproto/example/permessage/googlev1"
	_ "github.com/CrowdStrike/csproto/example/permessage/googlev2"
	_ "github.com/CrowdStrike/csproto/example/proto2/gogo"
	_ "github.com/CrowdStrike/csproto/example/proto2/googlev1"
	_ "github.com/CrowdStrike/csproto/example/proto2/googlev2"
	_ "github.com/CrowdStrike/csproto/example/proto3/gogo"
	_ "github.com/CrowdStrike/csproto/example/proto3/googlev1"
	_ "github.com/CrowdStrike/csproto/example/proto3/googlev2"
)

const gogoWKT = ",Mgoogle/protobuf/any.proto=github.com/gogo/protobuf/types;types,Mgoogle/protobuf/duration.proto=github.com/gogo/protobuf/types;types,Mgoogle/protobuf/struct.proto=github.com/gogo/protobuf/types;types,Mgoogle/protobuf/timestamp.proto=github.com/gogo/protobuf/types;types,Mgoogle/protobuf/wrappers.proto=github.com/gogo/protobuf/types;types"

type family struct {
	dir, file, param string
	gogo             bool
}

var families = []family{
	{"proto2/gogo", "gogo_proto2_example.proto", "paths=source_relative" + gogoWKT + ",specialname=Size", true},
	{"proto3/gogo", "gogo_proto3_example.proto", "paths=source_relative" + gogoWKT, true},
	{"proto2/googlev1", "googlev1_proto2_example.proto", "apiversion=v2,paths=source_relative", false},
	{"proto3/googlev1", "googlev1_proto3_example.proto", "apiversion=v2,paths=source_relative", false},
	{"proto2/googlev2", "googlev2_proto2_example.proto", "apiversion=v2,paths=source_relative", false},
	{"proto3/googlev2", "googlev2_proto3_example.proto", "apiversion=v2,paths=source_relative", false},
	{"permessage/gogo", "gogo_permessage_example.proto", "filepermessage=true,paths=source_relative" + gogoWKT + ",specialname=Size", true},
	{"permessage/googlev1", "googlev1_permessage_example.proto", "apiversion=v2,filepermessage=true,paths=source_relative", false},
	{"permessage/googlev2", "googlev2_permessage_example.proto", "apiversion=v2,filepermessage=true,paths=source_relative", false},
}

func gogoFile(name string) (*descriptorpb.FileDescriptorProto, error) {
	gz := gogoproto.FileDescriptor(name)
	if gz == nil {
		return nil, fmt.Errorf("gogo registry has no file %q", name)
	}
	r, err := gzip.NewReader(bytes.NewReader(gz))
	if err != nil {
		return nil, err
	}
	b, err := io.ReadAll(r)
	if err != nil {
		return nil, err
	}
	fd := &descriptorpb.FileDescriptorProto{}
	if err := proto.Unmarshal(b, fd); err != nil {
		return nil, err
	}
	return fd, nil
}

// closure returns the file and its transitive dependencies, dependencies first.
func closure(f family) ([]*descriptorpb.FileDescriptorProto, error) {
	var out []*descriptorpb.FileDescriptorProto
	seen := map[string]bool{}
	var visit func(name string) error
	visit = func(name string) error {
		if seen[name] {
			return nil
		}
		seen[name] = true
		var fd *descriptorpb.FileDescriptorProto
		if f.gogo {
			g, err := gogoFile(name)
			if err == nil {
				fd = g
			}
		}
		if fd == nil {
			d, err := protoregistry.GlobalFiles.FindFileByPath(name)
			if err != nil {
				return fmt.Errorf("%s: %v", name, err)
			}
			fd = protodesc.ToFileDescriptorProto(d.(protoreflect.FileDescriptor))
		}
		for _, dep := range fd.Dependency {
			if err := visit(dep); err != nil {
				return err
			}
		}
		out = append(out, fd)
		return nil
	}
	if err := visit(f.file); err != nil {
		return nil, err
	}
	return out, nil
}

func main() {
	if len(os.Args) < 3 {
		fmt.Fprintln(os.Stderr, "usage: genfm <plugin> <outdir> [-compare <example dir>]")
		os.Exit(2)
	}
	plugin, outdir := os.Args[1], os.Args[2]
	compare := ""
	if len(os.Args) >= 5 && os.Args[3] == "-compare" {
		compare = os.Args[4]
	}
	bad := 0
	for _, f := range families {
		files, err := closure(f)
		if err != nil {
			fmt.Fprintf(os.Stderr, "%s: %v\n", f.dir, err)
			bad++
			continue
		}
		req := &pluginpb.CodeGeneratorRequest{FileToGenerate: []string{f.file}, Parameter: proto.String(f.param), ProtoFile: files,
			CompilerVersion: &pluginpb.Version{Major: proto.Int32(3), Minor: proto.Int32(21), Patch: proto.Int32(12)}}
		in, err := proto.Marshal(req)
		if err != nil {
			fmt.Fprintln(os.Stderr, err)
			bad++
			continue
		}
		cmd := exec.Command(plugin)
		cmd.Stdin = bytes.NewReader(in)
		var stdout, stderr bytes.Buffer
		cmd.Stdout, cmd.Stderr = &stdout, &stderr
		if err := cmd.Run(); err != nil {
			fmt.Fprintf(os.Stderr, "%s: plug-in failed: %v\n%s\n", f.dir, err, stderr.String())
			bad++
			continue
		}
		resp := &pluginpb.CodeGeneratorResponse{}
		if err := proto.Unmarshal(stdout.Bytes(), resp); err != nil {
			fmt.Fprintf(os.Stderr, "%s: bad response: %v\n", f.dir, err)
			bad++
			continue
		}
		if resp.Error != nil {
			fmt.Fprintf(os.Stderr, "%s: plug-in error: %s\n", f.dir, resp.GetError())
			bad++
			continue
		}
		var names []string
		for _, rf := range resp.File {
			p := filepath.Join(outdir, f.dir, rf.GetName())
			os.MkdirAll(filepath.Dir(p), 0o755)
			if err := os.WriteFile(p, []byte(rf.GetContent()), 0o644); err != nil {
				fmt.Fprintln(os.Stderr, err)
				bad++
			}
			names = append(names, rf.GetName())
			if compare != "" {
				old, err := os.ReadFile(filepath.Join(compare, f.dir, rf.GetName()))
				switch {
				case err != nil:
					fmt.Printf("DIFF %s/%s: no checked-in file\n", f.dir, rf.GetName())
				case !bytes.Equal(old, []byte(rf.GetContent())):
					fmt.Printf("DIFF %s/%s: differs from the checked-in file\n", f.dir, rf.GetName())
				default:
					fmt.Printf("SAME %s/%s\n", f.dir, rf.GetName())
				}
			}
		}
		sort.Strings(names)
		fmt.Printf("%s: %d file(s)\n", f.dir, len(names))
	}
	if bad > 0 {
		os.Exit(1)
	}
}
