#!/bin/sh
# usage: confirm_seed.sh <seed-dir> <demo-test-name> [pkgdir]
# Confirms a seeded change in a scratch worktree: the suite passes with it, the demo fails
# with it and passes without it.  Prints a summary and removes the worktree.
set -u
seed=$1; demo=$2; pkg=${3:-.}
export GOFLAGS=-mod=mod GOPROXY=off GOSUMDB=off GOTOOLCHAIN=local
wt=$(mktemp -d /tmp/confirm.XXXX)
rmdir $wt
git -C /repo worktree add -q --detach $wt HEAD || exit 2
cd $wt
git apply $seed/patch.diff || { echo "PATCH DOES NOT APPLY"; git -C /repo worktree remove --force $wt; exit 2; }
suite=$( (go build ./... && go test -vet=off -count=1 ./...) >/tmp/confirm_suite.log 2>&1 && echo pass || echo FAIL)
cp $seed/demo_test.go $pkg/zz_demo_test.go
with=$( (cd $pkg && go test -vet=off -count=1 -run "^$demo\$" .) >/tmp/confirm_with.log 2>&1 && echo pass || echo fail)
git apply -R $seed/patch.diff
without=$( (cd $pkg && go test -vet=off -count=1 -run "^$demo\$" .) >/tmp/confirm_without.log 2>&1 && echo pass || echo fail)
echo "suite-with-change=$suite demo-with-change=$with demo-without-change=$without"
cd /; git -C /repo worktree remove --force $wt
[ "$suite" = pass ] && [ "$with" = fail ] && [ "$without" = pass ]
