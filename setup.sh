#!/bin/sh
# Builds the verifier offline (golang.org/x/tools v0.29.0 from the module cache).
set -e
cd "$(dirname "$0")"
export GOFLAGS=-mod=mod GOPROXY=off GOSUMDB=off GOTOOLCHAIN=local
mkdir -p bin evidence replays
(cd gocv && go build -o ../bin/gocv .)
echo "gocv built: $(ls -la bin/gocv | awk '{print $5}') bytes"
