package spec

import (
	"math"
	"unsafe"
)

// Spec library: overlaid (with the package clause rewritten) on every package under
// contract.  Everything here is ghost code: pure, total, loop bounds constant.  The
// verifier executes these functions symbolically with the same SSA translator it uses for
// the code; replay tests link the very same text natively.
//
// Written from the protobuf encoding specification
// (https://protobuf.dev/programming-guides/encoding/), not from csproto.

// ---- intrinsics (the verifier gives these their logical meaning; the bodies are the
// native meaning used by replays)

type gocvSkip struct{}

func gocv_assume(b bool) {
	if !b {
		panic(gocvSkip{})
	}
}

func gocv_assert(b bool, name string) {
	if !b {
		panic("gocv: assertion failed: " + name)
	}
}

func gocv_reach(name string) {}

func gocv_mod(locs ...any) {}

func gocv_forall(lo, hi int, f func(i int) bool) bool {
	if hi-lo > 1<<16 {
		hi = lo + 1<<16
	}
	for i := lo; i < hi; i++ {
		if !f(i) {
			return false
		}
	}
	return true
}

// gocv_view: b is exactly the window p[lo:hi] (same backing array, same position).
func gocv_view(b, p []byte, lo, hi int) bool {
	if lo < 0 || hi < lo || hi > cap(p) || len(b) != hi-lo {
		return false
	}
	if hi == lo {
		return true
	}
	return &b[0] == &p[:hi][lo]
}

// gocv_sameArr: the two non-empty slices share a backing array (native: approximated by
// overlap of their full capacities).
func gocv_sameArr(a, b []byte) bool {
	if len(a) == 0 || len(b) == 0 {
		return false
	}
	a, b = a[:cap(a)], b[:cap(b)]
	for i := range a {
		if &a[i] == &b[0] {
			return true
		}
	}
	for i := range b {
		if &b[i] == &a[0] {
			return true
		}
	}
	return false
}

// gocv_prefixEq: r[i] == b[i] for 0 <= i < n.
func gocv_prefixEq(r, b []byte, n int) bool {
	for i := 0; i < n; i++ {
		if i >= len(r) || i >= len(b) || r[i] != b[i] {
			return false
		}
	}
	return true
}

// gocv_wellFormed: an interface-typed field value does not hold a typed nil pointer.
func gocv_wellFormed(v any) bool { return true }

// gocv_strview: b is a view of the bytes of s (same memory, same length).
func gocv_strview(b []byte, s string) bool {
	if len(b) != len(s) {
		return false
	}
	return len(s) == 0 || unsafe.StringData(s) == &b[0]
}

// gocv_strAliases: the bytes of s live in the backing array of b (impossible for
// well-typed programs; needed because the heap model keeps strings and byte slices in one
// element heap).
func gocv_strAliases(s string, b []byte) bool {
	if len(s) == 0 || cap(b) == 0 {
		return false
	}
	b = b[:cap(b)]
	for i := range b {
		if &b[i] == unsafe.StringData(s) {
			return true
		}
	}
	return false
}

// gocv_fresh: allocated during the call (cannot be observed natively).
func gocv_fresh(x any) bool { return true }

func implies(a, b bool) bool { return !a || b }

// ---- bytes

func byteAt(p []byte, i int) byte {
	if i >= 0 && i < len(p) {
		return p[i]
	}
	return 0
}

// ---- base-128 varints

// vlen is the number of bytes of the minimal varint encoding of v.
func vlen(v uint64) int {
	switch {
	case v < 1<<7:
		return 1
	case v < 1<<14:
		return 2
	case v < 1<<21:
		return 3
	case v < 1<<28:
		return 4
	case v < 1<<35:
		return 5
	case v < 1<<42:
		return 6
	case v < 1<<49:
		return 7
	case v < 1<<56:
		return 8
	case v < 1<<63:
		return 9
	}
	return 10
}

// vbyte is the i-th byte of the minimal varint encoding of v (0 <= i < vlen(v)).
func vbyte(v uint64, i int) byte {
	b := byte(v>>(7*uint(i))) & 0x7f
	if i < vlen(v)-1 {
		b |= 0x80
	}
	return b
}

// varintLen: the length (1..10) of the varint that starts at p[o], or 0 when no byte
// without continuation bit occurs within the first 10 bytes / before the end of p.
func varintLen(p []byte, o int) int {
	rem := len(p) - o // written as a difference so that views p[o:] and (p, o) give the same terms
	for k := 0; k < 10; k++ {
		if k >= rem {
			return 0
		}
		if byteAt(p, o+k) < 0x80 {
			return k + 1
		}
	}
	return 0
}

// varintVal: the value of that varint, low 64 bits (bits of a 10th byte beyond bit 63 are
// dropped - what a lenient reader returns; equal to the true value for conforming input).
func varintVal(p []byte, o int) uint64 {
	n := varintLen(p, o)
	var v uint64
	for k := 0; k < 10; k++ {
		if k < n {
			v |= uint64(byteAt(p, o+k)&0x7f) << (7 * uint(k))
		}
	}
	return v
}

func varintOK(p []byte, o int) bool { return varintLen(p, o) != 0 }

// varintStrict: a varint a conforming writer can emit: terminated, and a 10th byte is 0 or 1.
func varintStrict(p []byte, o int) bool {
	n := varintLen(p, o)
	return n != 0 && (n < 10 || byteAt(p, o+9) <= 1)
}

// varintTruncated: the input ends inside the varint (every remaining byte has the
// continuation bit and fewer than 10 bytes remain).
func varintTruncated(p []byte, o int) bool {
	rem := len(p) - o
	if rem < 0 || rem >= 10 {
		return false
	}
	for k := 0; k < 9; k++ {
		if k < rem && byteAt(p, o+k) < 0x80 {
			return false
		}
	}
	return true
}

// isVarintOf: the bytes p[o], p[o+1], ... are the minimal varint encoding of v (bounds are
// stated separately by the cursor clauses).
func isVarintOf(p []byte, o int, v uint64) bool {
	n := vlen(v)
	for i := 0; i < 10; i++ {
		if i < n && byteAt(p, o+i) != vbyte(v, i) {
			return false
		}
	}
	return true
}

// ---- zig-zag

func zz32(x int32) uint64 { return uint64(uint32(x<<1) ^ uint32(x>>31)) }
func zz64(x int64) uint64 { return uint64(x<<1) ^ uint64(x>>63) }
func unzz32(u uint64) int32 {
	v := uint32(u)
	return int32(v>>1) ^ -int32(v&1)
}
func unzz64(u uint64) int64 { return int64(u>>1) ^ -int64(u&1) }

// ---- little-endian fixed width

func le32(p []byte, o int) uint32 {
	return uint32(byteAt(p, o)) | uint32(byteAt(p, o+1))<<8 | uint32(byteAt(p, o+2))<<16 | uint32(byteAt(p, o+3))<<24
}

func le64(p []byte, o int) uint64 {
	return uint64(le32(p, o)) | uint64(le32(p, o+4))<<32
}

// ---- keys

const maxFieldNumber = 1<<29 - 1

func validNum(num int) bool { return num >= 1 && num <= maxFieldNumber }

func keyOf(num int, wt int) uint64 { return uint64(num)<<3 | uint64(wt) }

func boolByte(b bool) byte {
	if b {
		return 1
	}
	return 0
}

func f32bits(f float32) uint32 { return math.Float32bits(f) }
func f64bits(f float64) uint64 { return math.Float64bits(f) }

func fitsInt32(u uint64) bool {
	i := int64(u)
	return i >= -1<<31 && i <= 1<<31-1
}

// ---- length-delimited items: varint length prefix followed by that many bytes

// lenDelimStart: offset of the payload.
func lenDelimStart(p []byte, o int) int { return o + varintLen(p, o) }

// lenDelimEnd: offset just behind the payload.
func lenDelimEnd(p []byte, o int) int { return o + varintLen(p, o) + int(varintVal(p, o)) }

// maxLen: no buffer is larger than this (amd64 allocation limit); keeps the sums below
// free of overflow.
const maxLen = 1 << 47

// maxBuf: the largest slice length (the engine's slice sizes are 48-bit quantities, the amd64
// allocation limit); a declared length beyond it can never lie inside a buffer.
const maxBuf = 1<<48 - 1

// lenDelimOK: a length prefix is present and the declared payload lies inside p.
func lenDelimOK(p []byte, o int) bool {
	n := varintLen(p, o)
	l := int(varintVal(p, o))
	return n != 0 && l >= 0 && l <= maxBuf && o+n+l <= len(p)
}

// lenDelimStrict: ... and it is what a conforming writer emits (length below 2 GiB).
func lenDelimStrict(p []byte, o int) bool {
	return lenDelimOK(p, o) && varintStrict(p, o) && varintVal(p, o) <= 1<<31-1
}

// lenDelimTooLong: a length prefix is present but declares more bytes than remain.
func lenDelimTooLong(p []byte, o int) bool {
	n := varintLen(p, o)
	l := int(varintVal(p, o))
	return n != 0 && (l < 0 || l > maxBuf || o+n+l > len(p))
}

// ---- lemma carriers (see common.contracts)

func lemma_varint_inverse(p []byte, o int, v uint64) {}
func lemma_zigzag_inverse(x32 int32, x64 int64)      {}
func lemma_lendelim(p []byte, o int, l int)          {}

// ---- one field: key followed by a payload whose shape the wire type fixes.  This is the
// reference wire-format parser step shared by Skip (C02), lazyproto (C13), protodump (C20).

func keyNum(k uint64) int { return int(k >> 3) }
func keyWT(k uint64) int  { return int(k & 7) }

// fieldOK: a complete field (supported wire types 0, 1, 2, 5) starts at p[fs].
func fieldOK(p []byte, fs int) bool {
	n := varintLen(p, fs)
	if n == 0 || fs < 0 {
		return false
	}
	ps := fs + n
	switch keyWT(varintVal(p, fs)) {
	case 0:
		return varintOK(p, ps)
	case 1:
		return ps+8 <= len(p)
	case 2:
		return lenDelimOK(p, ps)
	case 5:
		return ps+4 <= len(p)
	}
	return false
}

// fieldEnd: offset just behind that field.
func fieldEnd(p []byte, fs int) int {
	ps := fs + varintLen(p, fs)
	switch keyWT(varintVal(p, fs)) {
	case 0:
		return ps + varintLen(p, ps)
	case 1:
		return ps + 8
	case 2:
		return lenDelimEnd(p, ps)
	case 5:
		return ps + 4
	}
	return ps
}

// fieldStrict: ... as a conforming writer emits it.
func fieldStrict(p []byte, fs int) bool {
	if !fieldOK(p, fs) || !varintStrict(p, fs) {
		return false
	}
	ps := fs + varintLen(p, fs)
	switch keyWT(varintVal(p, fs)) {
	case 0:
		return varintStrict(p, ps)
	case 2:
		return lenDelimStrict(p, ps)
	}
	return true
}

// fieldTruncated: the key is complete but the input ends inside the payload.
func fieldTruncated(p []byte, fs int) bool {
	n := varintLen(p, fs)
	if n == 0 || fs < 0 {
		return false
	}
	ps := fs + n
	switch keyWT(varintVal(p, fs)) {
	case 0:
		return varintTruncated(p, ps)
	case 1:
		return ps+8 > len(p)
	case 2:
		return varintTruncated(p, ps) || lenDelimTooLong(p, ps)
	case 5:
		return ps+4 > len(p)
	}
	return false
}

// ---- abstract messages (C19, C04..): a message handed to the codec is known only through
// its interfaces.  Its encoded size and bytes are uninterpreted functions of the message
// identity (the message is assumed not to be mutated during a codec call), and a ghost
// record per message logs what its Unmarshal method was given.

type gocvMsgGhost struct {
	calls   int   // number of Unmarshal-family calls on this message so far
	inRef   int   // identity of the slice the last call received ...
	inOff   int   // ... its offset in that array
	inLen   int   // ... and its length
	lastErr error // what the last call returned
}

var gocvGhostDummy gocvMsgGhost

func gocv_ghostOf(m any) *gocvMsgGhost { return &gocvGhostDummy }
// gocvExtGhost: what the protobuf runtime holds for one proto2 extension of one message.
type gocvExtGhost struct {
	has bool  // the extension is set (what HasExtension reports)
	val any   // what GetExtension returns: for an UNSET extension that is runtime-specific (google v2: the default value, e.g. a typed nil message pointer; v1/gogo: nil and an error)
	err error
}

var gocvExtDummy gocvExtGhost

func gocv_extSlot(m any, ext any) *gocvExtGhost { return &gocvExtDummy }
func gocv_msgSize(m any) int           { return 0 }
func gocv_msgByte(m any, i int) byte   { return 0 }
func gocv_sliceRef(b []byte) int       { return 0 }
func gocv_sliceOff(b []byte) int       { return 0 }

// gotInput: the message's last Unmarshal call received exactly the window p[lo:hi].
func gotInput(m any, p []byte, lo, hi int) bool {
	g := gocv_ghostOf(m)
	return g.inRef == gocv_sliceRef(p) && g.inOff == gocv_sliceOff(p)+lo && g.inLen == hi-lo
}
