package csproto

// C02: conformance harnesses.  csproto's writers against the independent reference
// implementation google.golang.org/protobuf/encoding/protowire (copied mechanically from
// the module cache on every run and proved against the same spec functions): the bytes
// are identical, and each library's reader returns the value the other wrote.  Calls on
// both sides are by contract, so the statements hold for all values and field numbers.
// The reference output is built piecewise (key, payload) from nil slices.

import pw "github.com/CrowdStrike/csproto/zz_gocv_mod_protowire"

func lemma_conform_varint_field(buf []byte, tag int, x uint64, mode DecoderMode) {
	gocv_assume(validNum(tag))
	gocv_assume(len(buf) == SizeOfTagKey(tag)+SizeOfVarint(x))
	e := NewEncoder(buf)
	e.EncodeUInt64(tag, x)
	refK := pw.AppendVarint(nil, pw.EncodeTag(pw.Number(tag), pw.VarintType))
	refV := pw.AppendVarint(nil, x)
	gocv_assert(len(refK) == SizeOfTagKey(tag) && len(refK)+len(refV) == len(buf), "same-length")
	gocv_assert(gocv_forall(0, 5, func(i int) bool { return i >= len(refK) || refK[i] == buf[i] }), "same-key-bytes")
	gocv_assert(gocv_forall(0, 10, func(i int) bool { return i >= len(refV) || refV[i] == buf[SizeOfTagKey(tag)+i] }), "same-payload-bytes")
	// cross decoding: csproto reads what the reference wrote
	lemma_varint_inverse(refK, 0, keyOf(tag, int(WireTypeVarint)))
	d := NewDecoder(refK)
	d.SetMode(mode)
	t, wt, err := d.DecodeTag()
	gocv_assert(err == nil && t == tag && wt == WireTypeVarint, "csproto-reads-reference-key")
	lemma_varint_inverse(refV, 0, x)
	d2 := NewDecoder(refV)
	d2.SetMode(mode)
	v, err := d2.DecodeUInt64()
	gocv_assert(err == nil && v == x, "csproto-reads-reference-value")
	// ... and the reference reads what csproto wrote
	lemma_varint_inverse(buf, 0, keyOf(tag, int(WireTypeVarint)))
	k, n := pw.ConsumeVarint(buf)
	gocv_assert(n == SizeOfTagKey(tag) && k == keyOf(tag, int(WireTypeVarint)), "reference-reads-csproto-key")
	lemma_varint_inverse(buf, SizeOfTagKey(tag), x)
	v2, n2 := pw.ConsumeVarint(buf[SizeOfTagKey(tag):])
	gocv_assert(n2 == SizeOfVarint(x) && v2 == x, "reference-reads-csproto-value")
}

// negative int32 / enum values: 10-byte sign-extended varints on both sides
func lemma_conform_int32(buf []byte, tag int, x int32, mode DecoderMode) {
	gocv_assume(validNum(tag))
	gocv_assume(len(buf) == SizeOfTagKey(tag)+SizeOfVarint(uint64(x)))
	e := NewEncoder(buf)
	e.EncodeInt32(tag, x)
	refV := pw.AppendVarint(nil, uint64(int64(x)))
	gocv_assert(len(refV) == SizeOfVarint(uint64(x)), "same-length")
	gocv_assert(gocv_forall(0, 10, func(i int) bool { return i >= len(refV) || refV[i] == buf[SizeOfTagKey(tag)+i] }), "same-payload-bytes")
	lemma_varint_inverse(refV, 0, uint64(int64(x)))
	d := NewDecoder(refV)
	d.SetMode(mode)
	v, err := d.DecodeInt32()
	gocv_assert(err == nil && v == x, "csproto-reads-reference-value")
}

func lemma_conform_sint(buf []byte, tag int, x32 int32, x64 int64) {
	gocv_assert(pw.EncodeZigZag(x64) == zz64(x64), "zigzag64")
	gocv_assert(pw.EncodeZigZag(int64(x32)) == zz32(x32), "zigzag32-as-64")
	gocv_assert(pw.DecodeZigZag(zz64(x64)) == x64, "unzigzag64")
	gocv_assume(validNum(tag))
	gocv_assume(len(buf) == SizeOfTagKey(tag)+SizeOfZigZag(uint64(x64)))
	e := NewEncoder(buf)
	e.EncodeSInt64(tag, x64)
	refV := pw.AppendVarint(nil, pw.EncodeZigZag(x64))
	gocv_assert(len(refV) == SizeOfZigZag(uint64(x64)), "same-length")
	gocv_assert(gocv_forall(0, 10, func(i int) bool { return i >= len(refV) || refV[i] == buf[SizeOfTagKey(tag)+i] }), "same-payload-bytes")
}

func lemma_conform_fixed(buf []byte, tag int, x32 uint32, x64 uint64) {
	gocv_assume(validNum(tag))
	gocv_assume(len(buf) == SizeOfTagKey(tag)+4+SizeOfTagKey(tag)+8)
	e := NewEncoder(buf)
	e.EncodeFixed32(tag, x32)
	e.EncodeFixed64(tag, x64)
	r32 := pw.AppendFixed32(nil, x32)
	r64 := pw.AppendFixed64(nil, x64)
	gocv_assert(len(r32) == 4 && len(r64) == 8, "same-length")
	gocv_assert(le32(r32, 0) == le32(buf, SizeOfTagKey(tag)), "same-fixed32")
	gocv_assert(le64(r64, 0) == le64(buf, 2*SizeOfTagKey(tag)+4), "same-fixed64")
	v32, n32 := pw.ConsumeFixed32(buf[SizeOfTagKey(tag):])
	gocv_assert(n32 == 4 && v32 == x32, "reference-reads-csproto-fixed32")
	v64, n64 := pw.ConsumeFixed64(buf[2*SizeOfTagKey(tag)+4:])
	gocv_assert(n64 == 8 && v64 == x64, "reference-reads-csproto-fixed64")
}
