package csproto

// C02: Skip returns whole fields and the skipped fields tile the input.  Step lemma at an
// ARBITRARY field start o: for a field whose key is minimally encoded (what a conforming
// writer emits), DecodeTag followed by Skip returns exactly the window [o, fieldEnd(o)) of
// the input - key and payload - and leaves the cursor at fieldEnd(o).  The next field starts
// there, so by repetition of this step the returned slices concatenate to the input.
func lemma_skip_window(buf []byte, o int, tag int, wt WireType, mode DecoderMode) {
	gocv_assume(0 <= o && o <= len(buf)-keyLen(tag, wt))
	gocv_assume(keyBefore(buf, o+keyLen(tag, wt), tag, wt))
	lemma_varint_inverse(buf, o, keyOf(tag, int(wt)))
	d := NewDecoder(buf)
	d.SetMode(mode)
	d.offset = o
	t, w, err := d.DecodeTag()
	gocv_assert(err == nil && t == tag && w == wt && d.offset == o+keyLen(tag, wt), "key")
	d.offset = o + keyLen(tag, wt)
	b, err := d.Skip(t, w)
	if err != nil {
		gocv_assert(!fieldStrict(buf, o), "only-malformed-fields-are-rejected")
		return
	}
	gocv_assert(fieldOK(buf, o) && d.offset == fieldEnd(buf, o), "cursor-on-next-field")
	gocv_assert(gocv_view(b, buf, o, fieldEnd(buf, o)), "returns-key-and-payload")
}
