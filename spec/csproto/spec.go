package csproto

// Spec helpers that mention csproto's own types.

func decOK(d *Decoder) bool { return d.offset >= 0 && d.offset <= len(d.p) }

func encOK(e *Encoder) bool { return e.offset >= 0 && e.offset <= len(e.p) }

// keyLen: bytes of the key for (field number, wire type).
func keyLen(num int, wt WireType) int { return vlen(keyOf(num, int(wt))) }

// room: n more bytes fit behind the write cursor.
func room(e *Encoder, n int) bool {
	return e.offset >= 0 && n >= 0 && e.offset <= len(e.p) && n <= len(e.p)-e.offset
}

// hasKey: the minimal encoding of key(num, wt) sits at p[o:].
func hasKey(p []byte, o int, num int, wt WireType) bool { return isVarintOf(p, o, keyOf(num, int(wt))) }

// keyBefore: the minimal key of (num, wt) ends exactly at offset o - the situation right
// after DecodeTag returned (num, wt) for a key a conforming writer produced.
func keyBefore(p []byte, o int, num int, wt WireType) bool {
	return validNum(num) && int(wt) >= 0 && int(wt) <= 7 && o >= keyLen(num, wt) && o <= len(p) && hasKey(p, o-keyLen(num, wt), num, wt)
}

func lemma_key_before(p []byte, o int, num int, wt WireType) {}
