package csproto

import "google.golang.org/protobuf/proto"

// Spec helpers that mention csproto's own types.

func decOK(d *Decoder) bool { return d.offset >= 0 && d.offset <= len(d.p) }

func encOK(e *Encoder) bool { return e.offset >= 0 && e.offset <= len(e.p) }

// keyLen: bytes of the key for (field number, wire type).
func keyLen(num int, wt WireType) int { return vlen(keyOf(num, int(wt))) }

// room: n more bytes fit behind the write cursor.
func room(e *Encoder, n int) bool {
	return e.offset >= 0 && n >= 0 && e.offset <= len(e.p) && n <= len(e.p)-e.offset
}

// hasKey: the minimal encoding of key(num, wt) sits at p[o:].
func hasKey(p []byte, o int, num int, wt WireType) bool { return isVarintOf(p, o, keyOf(num, int(wt))) }

// keyBefore: the minimal key of (num, wt) ends exactly at offset o - the situation right
// after DecodeTag returned (num, wt) for a key a conforming writer produced.
func keyBefore(p []byte, o int, num int, wt WireType) bool {
	return validNum(num) && int(wt) >= 0 && int(wt) <= 7 && o >= keyLen(num, wt) && o <= len(p) && hasKey(p, o-keyLen(num, wt), num, wt)
}

func lemma_key_before(p []byte, o int, num int, wt WireType) {}

// isSizable / canMarshal / canUnmarshal: the dispatch conditions of Size, Marshal, Unmarshal.
func isSizable(m interface{}) bool {
	_, a := m.(Sizer)
	_, b := m.(ProtoV1Sizer)
	_, c := m.(proto.Message)
	return a || b || c
}

func canMarshal(m interface{}) bool {
	_, a := m.(Marshaler)
	_, b := m.(ProtoV1Marshaler)
	_, c := m.(proto.Message)
	return a || b || c
}

func canUnmarshal(m interface{}) bool {
	_, a := m.(Unmarshaler)
	_, b := m.(ProtoV1Unmarshaler)
	_, c := m.(proto.Message)
	return a || b || c
}

// GocvEncoderOffset exposes the write cursor to harnesses in other packages (ghost helper
// that exists only in the verification overlay).
func GocvEncoderOffset(e *Encoder) int { return e.offset }

// GocvKeyAt: the minimally encoded key of (num, wt) sits at p[o:] (what DecodeTag followed by
// Skip needs; exported for harnesses over generated code).
func GocvKeyAt(p []byte, o int, num int, wt WireType) bool {
	return o >= 0 && keyBefore(p, o+keyLen(num, wt), num, wt)
}

// GocvDecOK exposes the decoder's cursor invariant to contracts in other packages.
func GocvDecOK(d *Decoder) bool { return d != nil && decOK(d) }
