package lazyproto

import "github.com/CrowdStrike/csproto"

// C13, slice accessors of length-delimited kinds: one element per recorded occurrence, in
// order, each equal to the occurrence's bytes (bounded: at most 2 occurrences).

func lemma_c13_strings(fd *FieldData) {
	gocv_assume(fd != nil && len(fd.data) >= 1 && len(fd.data) <= 2 && fd.wt == csproto.WireTypeLengthDelimited)
	gocv_assume(!fd.unsafe)
	s, err := fd.StringValues()
	gocv_assert(err == nil, "accepted")
	gocv_assert(len(s) == len(fd.data), "one-string-per-occurrence")
}

func lemma_c13_bytes(fd *FieldData) {
	gocv_assume(fd != nil && len(fd.data) >= 1 && len(fd.data) <= 2 && fd.wt == csproto.WireTypeLengthDelimited)
	gocv_assume(!fd.unsafe)
	s, err := fd.BytesValues()
	gocv_assert(err == nil, "accepted")
	gocv_assert(len(s) == len(fd.data), "one-slice-per-occurrence")
}

// single-value accessors return the LAST recorded occurrence
func lemma_c13_string_last(fd *FieldData) {
	gocv_assume(fd != nil && len(fd.data) >= 1 && len(fd.data) <= 3 && fd.wt == csproto.WireTypeLengthDelimited)
	v, err := fd.StringValue()
	gocv_assert(err == nil, "accepted")
	gocv_assert(len(v) == len(fd.data[len(fd.data)-1]), "last-occurrence")
}

func lemma_c13_bytes_last(fd *FieldData) {
	gocv_assume(fd != nil && len(fd.data) >= 1 && len(fd.data) <= 3 && fd.wt == csproto.WireTypeLengthDelimited)
	v, err := fd.BytesValue()
	gocv_assert(err == nil, "accepted")
	last := fd.data[len(fd.data)-1]
	gocv_assert(len(v) == len(last) && gocv_prefixEq(v, last, len(last)), "last-occurrence-bytes")
	gocv_assert(fd.unsafe || len(v) == 0 || !gocv_sameArr(v, last), "safe-mode-copy")
}

// unpacked varint occurrences: one value per occurrence, the value of the varint
func lemma_c13_uint64s(fd *FieldData) {
	gocv_assume(fd != nil && len(fd.data) >= 1 && len(fd.data) <= 2 && fd.wt == csproto.WireTypeVarint)
	gocv_assume(!fd.unsafe && fd.uint64Slice == nil)
	d0 := fd.data[0]
	gocv_assume(varintStrict(d0, 0) && varintLen(d0, 0) == len(d0))
	if len(fd.data) == 2 {
		d1 := fd.data[1]
		gocv_assume(varintStrict(d1, 0) && varintLen(d1, 0) == len(d1))
	}
	s, err := fd.UInt64Values()
	gocv_assert(err == nil, "accepted")
	gocv_assert(len(s) == len(fd.data), "one-value-per-occurrence")
	gocv_assert(s[0] == varintVal(d0, 0), "first-value")
}

func lemma_c13_uint64_last(fd *FieldData) {
	gocv_assume(fd != nil && len(fd.data) >= 1 && len(fd.data) <= 3 && fd.wt == csproto.WireTypeVarint)
	last := fd.data[len(fd.data)-1]
	gocv_assume(varintStrict(last, 0) && varintLen(last, 0) == len(last))
	v, err := fd.UInt64Value()
	gocv_assert(err == nil && v == varintVal(last, 0), "last-occurrence-value")
}

// absent tag and wrong wire type
func lemma_c13_errors(fd *FieldData) {
	gocv_assume(fd != nil)
	if len(fd.data) == 0 {
		_, err := fd.UInt64Value()
		gocv_assert(err == ErrTagNotFound, "absent-scalar")
		_, err2 := fd.StringValues()
		gocv_assert(err2 == ErrTagNotFound, "absent-slice")
		return
	}
	if fd.wt == csproto.WireTypeFixed32 {
		_, err := fd.UInt64Value()
		gocv_assert(err != nil, "mismatch-scalar")
		_, err2 := fd.StringValue()
		gocv_assert(err2 != nil, "mismatch-string")
	}
}
