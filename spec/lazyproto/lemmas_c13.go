package lazyproto

import "github.com/CrowdStrike/csproto"

// C13, slice accessors of length-delimited kinds: one element per recorded occurrence, in
// order, each equal to the occurrence's bytes (bounded: at most 2 occurrences).

func lemma_c13_strings(fd *FieldData) {
	gocv_assume(fd != nil && len(fd.data) >= 1 && len(fd.data) <= 2 && fd.wt == csproto.WireTypeLengthDelimited)
	gocv_assume(!fd.unsafe)
	s, err := fd.StringValues()
	gocv_assert(err == nil, "accepted")
	gocv_assert(len(s) == len(fd.data), "one-string-per-occurrence")
}

func lemma_c13_bytes(fd *FieldData) {
	gocv_assume(fd != nil && len(fd.data) >= 1 && len(fd.data) <= 2 && fd.wt == csproto.WireTypeLengthDelimited)
	gocv_assume(!fd.unsafe)
	s, err := fd.BytesValues()
	gocv_assert(err == nil, "accepted")
	gocv_assert(len(s) == len(fd.data), "one-slice-per-occurrence")
}

// single-value accessors return the LAST recorded occurrence
func lemma_c13_string_last(fd *FieldData) {
	gocv_assume(fd != nil && len(fd.data) >= 1 && len(fd.data) <= 3 && fd.wt == csproto.WireTypeLengthDelimited)
	v, err := fd.StringValue()
	gocv_assert(err == nil, "accepted")
	gocv_assert(len(v) == len(fd.data[len(fd.data)-1]), "last-occurrence")
}

func lemma_c13_bytes_last(fd *FieldData) {
	gocv_assume(fd != nil && len(fd.data) >= 1 && len(fd.data) <= 3 && fd.wt == csproto.WireTypeLengthDelimited)
	v, err := fd.BytesValue()
	gocv_assert(err == nil, "accepted")
	last := fd.data[len(fd.data)-1]
	gocv_assert(len(v) == len(last) && gocv_prefixEq(v, last, len(last)), "last-occurrence-bytes")
	gocv_assert(fd.unsafe || len(v) == 0 || !gocv_sameArr(v, last), "safe-mode-copy")
}

// unpacked varint occurrences: one value per occurrence, the value of the varint
func lemma_c13_uint64s(fd *FieldData) {
	gocv_assume(fd != nil && len(fd.data) >= 1 && len(fd.data) <= 2 && fd.wt == csproto.WireTypeVarint)
	gocv_assume(!fd.unsafe && fd.uint64Slice == nil)
	d0 := fd.data[0]
	gocv_assume(varintStrict(d0, 0) && varintLen(d0, 0) == len(d0))
	if len(fd.data) == 2 {
		d1 := fd.data[1]
		gocv_assume(varintStrict(d1, 0) && varintLen(d1, 0) == len(d1))
	}
	s, err := fd.UInt64Values()
	gocv_assert(err == nil, "accepted")
	gocv_assert(len(s) == len(fd.data), "one-value-per-occurrence")
	gocv_assert(s[0] == varintVal(d0, 0), "first-value")
}

func lemma_c13_uint64_last(fd *FieldData) {
	gocv_assume(fd != nil && len(fd.data) >= 1 && len(fd.data) <= 3 && fd.wt == csproto.WireTypeVarint)
	last := fd.data[len(fd.data)-1]
	gocv_assume(varintStrict(last, 0) && varintLen(last, 0) == len(last))
	v, err := fd.UInt64Value()
	gocv_assert(err == nil && v == varintVal(last, 0), "last-occurrence-value")
}

// absent tag and wrong wire type
func lemma_c13_errors(fd *FieldData) {
	gocv_assume(fd != nil)
	if len(fd.data) == 0 {
		_, err := fd.UInt64Value()
		gocv_assert(err == ErrTagNotFound, "absent-scalar")
		_, err2 := fd.StringValues()
		gocv_assert(err2 == ErrTagNotFound, "absent-slice")
		return
	}
	if fd.wt == csproto.WireTypeFixed32 {
		_, err := fd.UInt64Value()
		gocv_assert(err != nil, "mismatch-scalar")
		_, err2 := fd.StringValue()
		gocv_assert(err2 != nil, "mismatch-string")
	}
}

// a packed run is expanded in order
func lemma_c13_uint64s_packed(fd *FieldData) {
	gocv_assume(fd != nil && len(fd.data) == 1 && fd.wt == csproto.WireTypeLengthDelimited)
	gocv_assume(!fd.unsafe && fd.uint64Slice == nil)
	d := fd.data[0]
	gocv_assume(varintStrict(d, 0))
	n0 := varintLen(d, 0)
	gocv_assume(n0 < len(d) && varintStrict(d, n0) && n0+varintLen(d, n0) == len(d)) // exactly two varints
	s, err := fd.UInt64Values()
	gocv_assert(err == nil, "accepted")
	gocv_assert(len(s) == 2, "packed-run-expanded")
	gocv_assert(s[0] == varintVal(d, 0) && s[1] == varintVal(d, n0), "values-in-wire-order")
}

// decode records exactly what the reference field parser finds (inputs of one field; the
// definition requests tag 1)
func lemma_c13_decode_varint(r *DecodeResult, p []byte) {
	gocv_assume(r != nil && flatOK(r) && len(r.flatTags) == 1 && r.flatTags[0] == 1)
	fd := r.flatData[0]
	gocv_assume(len(fd.data) == 0)
	gocv_assume(len(p) > 1 && p[0] == 0x08)                    // key of (1, varint)
	gocv_assume(fieldStrict(p, 0) && fieldEnd(p, 0) == len(p)) // exactly one well-formed field
	err := r.decode(p)
	gocv_assert(err == nil, "accepted")
	gocv_assert(len(fd.data) == 1 && fd.wt == csproto.WireTypeVarint, "recorded-once")
	gocv_assert(gocv_view(fd.data[0], p, 1, len(p)), "recorded-the-varint-bytes")
}

func lemma_c13_decode_bytes(r *DecodeResult, p []byte) {
	gocv_assume(r != nil && flatOK(r) && len(r.flatTags) == 1 && r.flatTags[0] == 1)
	fd := r.flatData[0]
	gocv_assume(len(fd.data) == 0)
	gocv_assume(len(p) > 1 && p[0] == 0x0a)                    // key of (1, length-delimited)
	gocv_assume(fieldStrict(p, 0) && fieldEnd(p, 0) == len(p)) // exactly one well-formed field
	err := r.decode(p)
	gocv_assert(err == nil, "accepted")
	gocv_assert(len(fd.data) == 1 && fd.wt == csproto.WireTypeLengthDelimited, "recorded-once")
	gocv_assert(gocv_view(fd.data[0], p, lenDelimStart(p, 1), len(p)), "recorded-the-payload")
}

func lemma_c13_decode_other(r *DecodeResult, p []byte) {
	gocv_assume(r != nil && flatOK(r) && len(r.flatTags) == 1 && r.flatTags[0] == 1)
	fd := r.flatData[0]
	gocv_assume(len(fd.data) == 0)
	gocv_assume(len(p) > 1 && p[0] == 0x10)                    // key of (2, varint): not requested
	gocv_assume(fieldStrict(p, 0) && fieldEnd(p, 0) == len(p))
	err := r.decode(p)
	gocv_assert(err == nil, "accepted")
	gocv_assert(len(fd.data) == 0, "unrequested-field-not-recorded")
}

// a packed field split over two records: both runs are expanded, in wire order
func lemma_c13_uint64s_two_runs(fd *FieldData) {
	gocv_assume(fd != nil && len(fd.data) == 2 && fd.wt == csproto.WireTypeLengthDelimited)
	gocv_assume(!fd.unsafe && fd.uint64Slice == nil)
	d0, d1 := fd.data[0], fd.data[1]
	gocv_assume(varintStrict(d0, 0) && varintLen(d0, 0) == len(d0))
	gocv_assume(varintStrict(d1, 0) && varintLen(d1, 0) == len(d1))
	s, err := fd.UInt64Values()
	gocv_assert(err == nil, "accepted")
	gocv_assert(len(s) == 2, "both-runs-expanded")
	gocv_assert(s[0] == varintVal(d0, 0) && s[1] == varintVal(d1, 0), "runs-in-wire-order")
}
