package lazyproto

import "github.com/CrowdStrike/csproto"

// C14, last sentence ("in safe mode, values handed out before Close stay intact after Close
// and after any number of later decodes"): a slice accessor in safe mode must not keep a
// reference to the slice it hands out on the pooled FieldData - the cache fields are what a
// later decode on the recycled result writes through.  One harness per slice accessor.

func lemma_c14f_BoolValues(fd *FieldData) {
	gocv_assume(fd != nil && !fd.unsafe && len(fd.data) == 1 && len(fd.data[0]) == 0 && fd.wt == csproto.WireTypeVarint)
	gocv_assume(fd.boolSlice == nil && fd.stringSlice == nil && fd.uint32Slice == nil && fd.int32Slice == nil && fd.uint64Slice == nil && fd.int64Slice == nil && fd.float32Slice == nil && fd.float64Slice == nil)
	mc := fd.maxCap
	_, _ = fd.BoolValues()
	gocv_assert(fd.boolSlice == nil && fd.stringSlice == nil && fd.uint32Slice == nil && fd.int32Slice == nil && fd.uint64Slice == nil && fd.int64Slice == nil && fd.float32Slice == nil && fd.float64Slice == nil, "safe-mode-accessor-keeps-no-reference-to-what-it-hands-out")
	gocv_assert(fd.maxCap == mc, "safe-mode-accessor-leaves-capacity-bookkeeping-alone")
}

func lemma_c14f_StringValues(fd *FieldData) {
	gocv_assume(fd != nil && !fd.unsafe && len(fd.data) == 1 && len(fd.data[0]) == 0 && fd.wt == csproto.WireTypeLengthDelimited)
	gocv_assume(fd.boolSlice == nil && fd.stringSlice == nil && fd.uint32Slice == nil && fd.int32Slice == nil && fd.uint64Slice == nil && fd.int64Slice == nil && fd.float32Slice == nil && fd.float64Slice == nil)
	mc := fd.maxCap
	_, _ = fd.StringValues()
	gocv_assert(fd.boolSlice == nil && fd.stringSlice == nil && fd.uint32Slice == nil && fd.int32Slice == nil && fd.uint64Slice == nil && fd.int64Slice == nil && fd.float32Slice == nil && fd.float64Slice == nil, "safe-mode-accessor-keeps-no-reference-to-what-it-hands-out")
	gocv_assert(fd.maxCap == mc, "safe-mode-accessor-leaves-capacity-bookkeeping-alone")
}

func lemma_c14f_UInt32Values(fd *FieldData) {
	gocv_assume(fd != nil && !fd.unsafe && len(fd.data) == 1 && len(fd.data[0]) == 0 && fd.wt == csproto.WireTypeVarint)
	gocv_assume(fd.boolSlice == nil && fd.stringSlice == nil && fd.uint32Slice == nil && fd.int32Slice == nil && fd.uint64Slice == nil && fd.int64Slice == nil && fd.float32Slice == nil && fd.float64Slice == nil)
	mc := fd.maxCap
	_, _ = fd.UInt32Values()
	gocv_assert(fd.boolSlice == nil && fd.stringSlice == nil && fd.uint32Slice == nil && fd.int32Slice == nil && fd.uint64Slice == nil && fd.int64Slice == nil && fd.float32Slice == nil && fd.float64Slice == nil, "safe-mode-accessor-keeps-no-reference-to-what-it-hands-out")
	gocv_assert(fd.maxCap == mc, "safe-mode-accessor-leaves-capacity-bookkeeping-alone")
}

func lemma_c14f_Int32Values(fd *FieldData) {
	gocv_assume(fd != nil && !fd.unsafe && len(fd.data) == 1 && len(fd.data[0]) == 0 && fd.wt == csproto.WireTypeVarint)
	gocv_assume(fd.boolSlice == nil && fd.stringSlice == nil && fd.uint32Slice == nil && fd.int32Slice == nil && fd.uint64Slice == nil && fd.int64Slice == nil && fd.float32Slice == nil && fd.float64Slice == nil)
	mc := fd.maxCap
	_, _ = fd.Int32Values()
	gocv_assert(fd.boolSlice == nil && fd.stringSlice == nil && fd.uint32Slice == nil && fd.int32Slice == nil && fd.uint64Slice == nil && fd.int64Slice == nil && fd.float32Slice == nil && fd.float64Slice == nil, "safe-mode-accessor-keeps-no-reference-to-what-it-hands-out")
	gocv_assert(fd.maxCap == mc, "safe-mode-accessor-leaves-capacity-bookkeeping-alone")
}

func lemma_c14f_SInt32Values(fd *FieldData) {
	gocv_assume(fd != nil && !fd.unsafe && len(fd.data) == 1 && len(fd.data[0]) == 0 && fd.wt == csproto.WireTypeVarint)
	gocv_assume(fd.boolSlice == nil && fd.stringSlice == nil && fd.uint32Slice == nil && fd.int32Slice == nil && fd.uint64Slice == nil && fd.int64Slice == nil && fd.float32Slice == nil && fd.float64Slice == nil)
	mc := fd.maxCap
	_, _ = fd.SInt32Values()
	gocv_assert(fd.boolSlice == nil && fd.stringSlice == nil && fd.uint32Slice == nil && fd.int32Slice == nil && fd.uint64Slice == nil && fd.int64Slice == nil && fd.float32Slice == nil && fd.float64Slice == nil, "safe-mode-accessor-keeps-no-reference-to-what-it-hands-out")
	gocv_assert(fd.maxCap == mc, "safe-mode-accessor-leaves-capacity-bookkeeping-alone")
}

func lemma_c14f_UInt64Values(fd *FieldData) {
	gocv_assume(fd != nil && !fd.unsafe && len(fd.data) == 1 && len(fd.data[0]) == 0 && fd.wt == csproto.WireTypeVarint)
	gocv_assume(fd.boolSlice == nil && fd.stringSlice == nil && fd.uint32Slice == nil && fd.int32Slice == nil && fd.uint64Slice == nil && fd.int64Slice == nil && fd.float32Slice == nil && fd.float64Slice == nil)
	mc := fd.maxCap
	_, _ = fd.UInt64Values()
	gocv_assert(fd.boolSlice == nil && fd.stringSlice == nil && fd.uint32Slice == nil && fd.int32Slice == nil && fd.uint64Slice == nil && fd.int64Slice == nil && fd.float32Slice == nil && fd.float64Slice == nil, "safe-mode-accessor-keeps-no-reference-to-what-it-hands-out")
	gocv_assert(fd.maxCap == mc, "safe-mode-accessor-leaves-capacity-bookkeeping-alone")
}

func lemma_c14f_Int64Values(fd *FieldData) {
	gocv_assume(fd != nil && !fd.unsafe && len(fd.data) == 1 && len(fd.data[0]) == 0 && fd.wt == csproto.WireTypeVarint)
	gocv_assume(fd.boolSlice == nil && fd.stringSlice == nil && fd.uint32Slice == nil && fd.int32Slice == nil && fd.uint64Slice == nil && fd.int64Slice == nil && fd.float32Slice == nil && fd.float64Slice == nil)
	mc := fd.maxCap
	_, _ = fd.Int64Values()
	gocv_assert(fd.boolSlice == nil && fd.stringSlice == nil && fd.uint32Slice == nil && fd.int32Slice == nil && fd.uint64Slice == nil && fd.int64Slice == nil && fd.float32Slice == nil && fd.float64Slice == nil, "safe-mode-accessor-keeps-no-reference-to-what-it-hands-out")
	gocv_assert(fd.maxCap == mc, "safe-mode-accessor-leaves-capacity-bookkeeping-alone")
}

func lemma_c14f_SInt64Values(fd *FieldData) {
	gocv_assume(fd != nil && !fd.unsafe && len(fd.data) == 1 && len(fd.data[0]) == 0 && fd.wt == csproto.WireTypeVarint)
	gocv_assume(fd.boolSlice == nil && fd.stringSlice == nil && fd.uint32Slice == nil && fd.int32Slice == nil && fd.uint64Slice == nil && fd.int64Slice == nil && fd.float32Slice == nil && fd.float64Slice == nil)
	mc := fd.maxCap
	_, _ = fd.SInt64Values()
	gocv_assert(fd.boolSlice == nil && fd.stringSlice == nil && fd.uint32Slice == nil && fd.int32Slice == nil && fd.uint64Slice == nil && fd.int64Slice == nil && fd.float32Slice == nil && fd.float64Slice == nil, "safe-mode-accessor-keeps-no-reference-to-what-it-hands-out")
	gocv_assert(fd.maxCap == mc, "safe-mode-accessor-leaves-capacity-bookkeeping-alone")
}

func lemma_c14f_Fixed32Values(fd *FieldData) {
	gocv_assume(fd != nil && !fd.unsafe && len(fd.data) == 1 && len(fd.data[0]) == 0 && fd.wt == csproto.WireTypeFixed32)
	gocv_assume(fd.boolSlice == nil && fd.stringSlice == nil && fd.uint32Slice == nil && fd.int32Slice == nil && fd.uint64Slice == nil && fd.int64Slice == nil && fd.float32Slice == nil && fd.float64Slice == nil)
	mc := fd.maxCap
	_, _ = fd.Fixed32Values()
	gocv_assert(fd.boolSlice == nil && fd.stringSlice == nil && fd.uint32Slice == nil && fd.int32Slice == nil && fd.uint64Slice == nil && fd.int64Slice == nil && fd.float32Slice == nil && fd.float64Slice == nil, "safe-mode-accessor-keeps-no-reference-to-what-it-hands-out")
	gocv_assert(fd.maxCap == mc, "safe-mode-accessor-leaves-capacity-bookkeeping-alone")
}

func lemma_c14f_Fixed64Values(fd *FieldData) {
	gocv_assume(fd != nil && !fd.unsafe && len(fd.data) == 1 && len(fd.data[0]) == 0 && fd.wt == csproto.WireTypeFixed64)
	gocv_assume(fd.boolSlice == nil && fd.stringSlice == nil && fd.uint32Slice == nil && fd.int32Slice == nil && fd.uint64Slice == nil && fd.int64Slice == nil && fd.float32Slice == nil && fd.float64Slice == nil)
	mc := fd.maxCap
	_, _ = fd.Fixed64Values()
	gocv_assert(fd.boolSlice == nil && fd.stringSlice == nil && fd.uint32Slice == nil && fd.int32Slice == nil && fd.uint64Slice == nil && fd.int64Slice == nil && fd.float32Slice == nil && fd.float64Slice == nil, "safe-mode-accessor-keeps-no-reference-to-what-it-hands-out")
	gocv_assert(fd.maxCap == mc, "safe-mode-accessor-leaves-capacity-bookkeeping-alone")
}

func lemma_c14f_Float32Values(fd *FieldData) {
	gocv_assume(fd != nil && !fd.unsafe && len(fd.data) == 1 && len(fd.data[0]) == 0 && fd.wt == csproto.WireTypeFixed32)
	gocv_assume(fd.boolSlice == nil && fd.stringSlice == nil && fd.uint32Slice == nil && fd.int32Slice == nil && fd.uint64Slice == nil && fd.int64Slice == nil && fd.float32Slice == nil && fd.float64Slice == nil)
	mc := fd.maxCap
	_, _ = fd.Float32Values()
	gocv_assert(fd.boolSlice == nil && fd.stringSlice == nil && fd.uint32Slice == nil && fd.int32Slice == nil && fd.uint64Slice == nil && fd.int64Slice == nil && fd.float32Slice == nil && fd.float64Slice == nil, "safe-mode-accessor-keeps-no-reference-to-what-it-hands-out")
	gocv_assert(fd.maxCap == mc, "safe-mode-accessor-leaves-capacity-bookkeeping-alone")
}

func lemma_c14f_Float64Values(fd *FieldData) {
	gocv_assume(fd != nil && !fd.unsafe && len(fd.data) == 1 && len(fd.data[0]) == 0 && fd.wt == csproto.WireTypeFixed64)
	gocv_assume(fd.boolSlice == nil && fd.stringSlice == nil && fd.uint32Slice == nil && fd.int32Slice == nil && fd.uint64Slice == nil && fd.int64Slice == nil && fd.float32Slice == nil && fd.float64Slice == nil)
	mc := fd.maxCap
	_, _ = fd.Float64Values()
	gocv_assert(fd.boolSlice == nil && fd.stringSlice == nil && fd.uint32Slice == nil && fd.int32Slice == nil && fd.uint64Slice == nil && fd.int64Slice == nil && fd.float32Slice == nil && fd.float64Slice == nil, "safe-mode-accessor-keeps-no-reference-to-what-it-hands-out")
	gocv_assert(fd.maxCap == mc, "safe-mode-accessor-leaves-capacity-bookkeeping-alone")
}
