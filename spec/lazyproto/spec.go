package lazyproto

// Shallow representation invariant of a DecodeResult (C14): the shape every method relies on
// without checking it.  "Shallow": it speaks about r's own slices, not about the results
// hanging off r.closers.

// flatOK: tags and field data are parallel and every field-data slot is populated.
func flatOK(r *DecodeResult) bool {
	if len(r.flatTags) != len(r.flatData) || len(r.nestedTags) != len(r.nestedDecoders) {
		return false
	}
	return gocv_forall(0, len(r.flatData), func(i int) bool { return r.flatData[i] != nil })
}

// closersOK: every result registered for closing exists (close() calls a method that reads
// through each entry).
func closersOK(r *DecodeResult) bool {
	return gocv_forall(0, len(r.closers), func(i int) bool { return r.closers[i] != nil })
}

func drShallow(r *DecodeResult) bool { return flatOK(r) && closersOK(r) }

// fdSlicesEmpty: the per-field scratch and data slices hold no elements (what trunc leaves).
func fdDataEmpty(fd *FieldData) bool { return len(fd.data) == 0 }

// nestedDecodersOK: every nested tag has its decoder (NestedResult(s) call a method on it).
func nestedDecodersOK(r *DecodeResult) bool {
	return gocv_forall(0, len(r.nestedDecoders), func(i int) bool { return r.nestedDecoders[i] != nil })
}
