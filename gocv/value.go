package main

// Values: every Go value is a flat vector of scalar terms plus its Go type; pointers may
// additionally carry a Go-side address (heap component prefix + key terms).

import (
	"fmt"
	"go/types"
	"strings"

	"golang.org/x/tools/go/ssa"
)

type Addr struct {
	prefix string
	keys   []*Term
}

type Val struct {
	T    types.Type
	C    []*Term
	A    *Addr         // pointer values: interior / object address when known Go-side
	Fn   *ssa.Function // function values known statically
	Bind []*Val        // closure bindings
	Tup  []*Val        // tuples
}

type comp struct {
	suffix string
	sort   int
	role   byte // 'r' ref, 'o' off, 'l' len, 'c' cap, 't' iface type, 'v' plain, 'i' iface data
}

// hsort is the sort a component has in heaps and as a fresh symbol: offsets, lengths and
// capacities are below 2^48 (Go's maxAlloc on amd64), which is made structural - a 48-bit
// symbol zero-extended - so that signed and unsigned comparisons on them coincide for the
// solver without arithmetic reasoning.
func (c comp) hsort() int {
	return c.sort
}

const sizeBits = 48

var hsortBits = 48

var typeKeyCache = map[types.Type]string{}

// typeKey is a canonical name for a type (aliases byte/rune/any spelled out).
func typeKey(t types.Type) string {
	if k, ok := typeKeyCache[t]; ok {
		return k
	}
	s := types.TypeString(t, func(p *types.Package) string { return p.Path() })
	var sb strings.Builder
	i := 0
	for i < len(s) {
		c := s[i]
		if c == '_' || c >= 'a' && c <= 'z' || c >= 'A' && c <= 'Z' {
			j := i
			for j < len(s) && (s[j] == '_' || s[j] >= 'a' && s[j] <= 'z' || s[j] >= 'A' && s[j] <= 'Z' || s[j] >= '0' && s[j] <= '9') {
				j++
			}
			tok := s[i:j]
			if i == 0 || s[i-1] != '.' {
				switch tok {
				case "byte":
					tok = "uint8"
				case "rune":
					tok = "int32"
				case "any":
					tok = "interface{}"
				}
			}
			sb.WriteString(tok)
			i = j
			continue
		}
		sb.WriteByte(c)
		i++
	}
	k := sb.String()
	typeKeyCache[t] = k
	return k
}

var flattenCache = map[string][]comp{}

// flatten lists the scalar components of a type.
func flatten(t types.Type) []comp {
	k := typeKey(t)
	if c, ok := flattenCache[k]; ok {
		return c
	}
	var out []comp
	switch u := t.Underlying().(type) {
	case *types.Basic:
		switch {
		case u.Info()&types.IsBoolean != 0:
			out = []comp{{"", 0, 'v'}}
		case u.Info()&types.IsString != 0:
			out = []comp{{"#ref", 64, 'r'}, {"#off", 64, 'o'}, {"#len", 64, 'l'}}
		case u.Kind() == types.UnsafePointer:
			out = []comp{{"$p", 64, 'r'}}
		case u.Kind() == types.UntypedNil:
			out = []comp{{"", 64, 'r'}}
		default:
			out = []comp{{"", basicBits(u), 'v'}}
		}
	case *types.Pointer, *types.Map, *types.Chan, *types.Signature:
		out = []comp{{"$p", 64, 'r'}}
	case *types.Slice:
		out = []comp{{"#ref", 64, 'r'}, {"#off", 64, 'o'}, {"#len", 64, 'l'}, {"#cap", 64, 'c'}}
	case *types.Interface:
		out = []comp{{"#typ", 32, 't'}, {"#val", 64, 'i'}}
	case *types.Struct:
		for i := 0; i < u.NumFields(); i++ {
			f := u.Field(i)
			for _, c := range flatten(f.Type()) {
				out = append(out, comp{"." + f.Name() + c.suffix, c.sort, c.role})
			}
		}
	case *types.Array:
		n := int(u.Len())
		if n > 64 {
			panic(fmt.Sprintf("array too large to flatten: %s", t))
		}
		for i := 0; i < n; i++ {
			for _, c := range flatten(u.Elem()) {
				out = append(out, comp{fmt.Sprintf("[%d]%s", i, c.suffix), c.sort, c.role})
			}
		}
	case *types.Tuple:
		panic("flatten tuple")
	default:
		panic(fmt.Sprintf("flatten: unsupported type %s (%T)", t, u))
	}
	flattenCache[k] = out
	return out
}

func basicBits(b *types.Basic) int {
	switch b.Kind() {
	case types.Int8, types.Uint8:
		return 8
	case types.Int16, types.Uint16:
		return 16
	case types.Int32, types.Uint32, types.Float32, types.UntypedRune:
		return 32
	case types.Int, types.Uint, types.Uintptr, types.Int64, types.Uint64, types.Float64, types.UntypedInt, types.UntypedFloat:
		return 64
	}
	panic("basicBits: " + b.String())
}

func isSigned(t types.Type) bool {
	b, ok := t.Underlying().(*types.Basic)
	return ok && b.Info()&types.IsInteger != 0 && b.Info()&types.IsUnsigned == 0
}

func isFloat(t types.Type) bool {
	b, ok := t.Underlying().(*types.Basic)
	return ok && b.Info()&types.IsFloat != 0
}

func isString(t types.Type) bool {
	b, ok := t.Underlying().(*types.Basic)
	return ok && b.Info()&types.IsString != 0
}

func isIface(t types.Type) bool {
	_, ok := t.Underlying().(*types.Interface)
	return ok
}

// heapPrefix returns the heap component prefix for objects of type t (pointee of *t).
func heapPrefix(t types.Type) string {
	if n, ok := t.(*types.Named); ok {
		if _, ok := n.Underlying().(*types.Struct); ok {
			return "F:" + typeKey(n)
		}
	}
	if _, ok := t.Underlying().(*types.Struct); ok {
		return "F:" + typeKey(t)
	}
	return "C:" + typeKey(t)
}

func elemPrefix(t types.Type) string { return "E:" + typeKey(t) }

func (x *Exec) zero(t types.Type) *Val {
	cs := flatten(t)
	v := &Val{T: t, C: make([]*Term, len(cs))}
	for i, c := range cs {
		if c.sort == 0 {
			v.C[i] = x.tb.False
		} else {
			v.C[i] = x.tb.BV(c.sort, 0)
		}
	}
	return v
}

// fresh makes a symbolic value of type t with a name hint.
func (x *Exec) fresh(t types.Type, hint string) *Val {
	cs := flatten(t)
	v := &Val{T: t, C: make([]*Term, len(cs))}
	x.nsym++
	for i, c := range cs {
		w := c.sort
		switch c.role {
		case 'o', 'l', 'c':
			w = hsortBits
		}
		v.C[i] = x.tb.ZExt(c.sort, x.tb.Var(fmt.Sprintf("%s%s!%d", hint, c.suffix, x.nsym), w))
	}
	return v
}

// validity returns the type-invariant facts of a value: slice headers are sane, refs are
// below the allocation frontier `top` (when top != nil).
func (x *Exec) validity(v *Val, refOK func(*Term) *Term) []*Term {
	tb := x.tb
	var out []*Term
	cs := flatten(v.T)
	small := func(t *Term) *Term { return tb.Eq(tb.Extract(63, sizeBits, t), tb.BV(64-sizeBits, 0)) }
	bounded := func(t *Term) bool { return t.Op == "zext" && t.Args[0].Sort <= sizeBits || t.IsConst() && t.Val < 1<<sizeBits }
	var lenT *Term
	for i, c := range cs {
		switch c.role {
		case 'r':
			if refOK != nil {
				out = append(out, refOK(v.C[i]))
			}
		case 'o':
			if !bounded(v.C[i]) {
				out = append(out, small(v.C[i]))
			}
		case 'l':
			lenT = v.C[i]
			if !bounded(v.C[i]) {
				out = append(out, small(v.C[i]))
			}
		case 'c':
			out = append(out, tb.Cmp("bvule", lenT, v.C[i]))
			if !bounded(v.C[i]) {
				out = append(out, small(v.C[i]))
			}
			// the whole array is below 2^48 elements
			out = append(out, small(tb.Add(v.C[i-2], v.C[i])))
			// a nil slice (ref 0) has len = cap = 0
			out = append(out, tb.Implies(tb.Eq(v.C[i-3], tb.BV(64, 0)), tb.Eq(v.C[i], tb.BV(64, 0))))
		}
	}
	return out
}

func (v *Val) String() string {
	var sb strings.Builder
	for i, c := range v.C {
		if i > 0 {
			sb.WriteString(", ")
		}
		sb.WriteString(c.Pretty(80))
	}
	return sb.String()
}

// merge builds ite(c, a, b) componentwise.
func (x *Exec) mergeVal(c *Term, a, b *Val) (*Val, error) {
	if a == b {
		return a, nil
	}
	if a == nil || b == nil {
		return nil, fmt.Errorf("merge with undefined value")
	}
	if a.Tup != nil || b.Tup != nil {
		if len(a.Tup) != len(b.Tup) {
			return nil, fmt.Errorf("merge tuple arity")
		}
		r := &Val{T: a.T, Tup: make([]*Val, len(a.Tup))}
		for i := range a.Tup {
			m, err := x.mergeVal(c, a.Tup[i], b.Tup[i])
			if err != nil {
				return nil, err
			}
			r.Tup[i] = m
		}
		return r, nil
	}
	if len(a.C) != len(b.C) {
		return nil, fmt.Errorf("merge arity mismatch %s vs %s", a.T, b.T)
	}
	r := &Val{T: a.T, C: make([]*Term, len(a.C))}
	same := true
	for i := range a.C {
		r.C[i] = x.tb.Ite(c, a.C[i], b.C[i])
		if a.C[i] != b.C[i] {
			same = false
		}
	}
	if a.Fn != b.Fn {
		if !same || a.Fn != nil && b.Fn != nil {
			return nil, fmt.Errorf("merge of distinct function values")
		}
	}
	r.Fn = a.Fn
	r.Bind = a.Bind
	if a.A != nil || b.A != nil {
		if a.A == nil || b.A == nil || a.A.prefix != b.A.prefix || len(a.A.keys) != len(b.A.keys) {
			// one side may be a nil pointer constant: keep the other address
			if a.A != nil && b.A == nil && isZeroRef(b) {
				r.A = a.A
				return r, nil
			}
			if b.A != nil && a.A == nil && isZeroRef(a) {
				r.A = b.A
				return r, nil
			}
			return nil, fmt.Errorf("merge of pointers with different provenance")
		}
		r.A = &Addr{prefix: a.A.prefix, keys: make([]*Term, len(a.A.keys))}
		for i := range a.A.keys {
			r.A.keys[i] = x.tb.Ite(c, a.A.keys[i], b.A.keys[i])
		}
	}
	return r, nil
}

func isZeroRef(v *Val) bool {
	return len(v.C) == 1 && v.C[0].IsConst() && v.C[0].Val == 0
}
