package main

// Values: every Go value is a flat vector of scalar terms plus its Go type; pointers may
// additionally carry a Go-side address (heap component prefix + key terms).

import (
	"fmt"
	"go/types"
	"strings"

	"golang.org/x/tools/go/ssa"
)

type Addr struct {
	prefix string
	keys   []*Term
}

type Val struct {
	T    types.Type
	C    []*Term
	A    *Addr         // pointer values: interior / object address when known Go-side
	Fn   *ssa.Function // function values known statically
	Bind []*Val        // closure bindings
	Tup  []*Val        // tuples
}

type comp struct {
	suffix string
	sort   int
	role   byte // 'r' ref, 'o' off, 'l' len, 'c' cap, 't' iface type, 'v' plain
}

func typeKey(t types.Type) string {
	return types.TypeString(t, func(p *types.Package) string { return p.Path() })
}

var flattenCache = map[string][]comp{}

// flatten lists the scalar components of a type.
func flatten(t types.Type) []comp {
	k := typeKey(t)
	if c, ok := flattenCache[k]; ok {
		return c
	}
	var out []comp
	switch u := t.Underlying().(type) {
	case *types.Basic:
		switch {
		case u.Info()&types.IsBoolean != 0:
			out = []comp{{"", 0, 'v'}}
		case u.Info()&types.IsString != 0:
			out = []comp{{"#ref", 64, 'r'}, {"#off", 64, 'o'}, {"#len", 64, 'l'}}
		case u.Kind() == types.UnsafePointer:
			out = []comp{{"", 64, 'r'}}
		case u.Kind() == types.UntypedNil:
			out = []comp{{"", 64, 'r'}}
		default:
			out = []comp{{"", basicBits(u), 'v'}}
		}
	case *types.Pointer, *types.Map, *types.Chan, *types.Signature:
		out = []comp{{"", 64, 'r'}}
	case *types.Slice:
		out = []comp{{"#ref", 64, 'r'}, {"#off", 64, 'o'}, {"#len", 64, 'l'}, {"#cap", 64, 'c'}}
	case *types.Interface:
		out = []comp{{"#typ", 32, 't'}, {"#val", 64, 'r'}}
	case *types.Struct:
		for i := 0; i < u.NumFields(); i++ {
			f := u.Field(i)
			for _, c := range flatten(f.Type()) {
				out = append(out, comp{"." + f.Name() + c.suffix, c.sort, c.role})
			}
		}
	case *types.Array:
		n := int(u.Len())
		if n > 64 {
			panic(fmt.Sprintf("array too large to flatten: %s", t))
		}
		for i := 0; i < n; i++ {
			for _, c := range flatten(u.Elem()) {
				out = append(out, comp{fmt.Sprintf("[%d]%s", i, c.suffix), c.sort, c.role})
			}
		}
	case *types.Tuple:
		panic("flatten tuple")
	default:
		panic(fmt.Sprintf("flatten: unsupported type %s (%T)", t, u))
	}
	flattenCache[k] = out
	return out
}

func basicBits(b *types.Basic) int {
	switch b.Kind() {
	case types.Int8, types.Uint8:
		return 8
	case types.Int16, types.Uint16:
		return 16
	case types.Int32, types.Uint32, types.Float32, types.UntypedRune:
		return 32
	case types.Int, types.Uint, types.Uintptr, types.Int64, types.Uint64, types.Float64, types.UntypedInt, types.UntypedFloat:
		return 64
	}
	panic("basicBits: " + b.String())
}

func isSigned(t types.Type) bool {
	b, ok := t.Underlying().(*types.Basic)
	return ok && b.Info()&types.IsInteger != 0 && b.Info()&types.IsUnsigned == 0
}

func isFloat(t types.Type) bool {
	b, ok := t.Underlying().(*types.Basic)
	return ok && b.Info()&types.IsFloat != 0
}

func isString(t types.Type) bool {
	b, ok := t.Underlying().(*types.Basic)
	return ok && b.Info()&types.IsString != 0
}

func isIface(t types.Type) bool {
	_, ok := t.Underlying().(*types.Interface)
	return ok
}

// heapPrefix returns the heap component prefix for objects of type t (pointee of *t).
func heapPrefix(t types.Type) string {
	if n, ok := t.(*types.Named); ok {
		if _, ok := n.Underlying().(*types.Struct); ok {
			return "F:" + typeKey(n)
		}
	}
	if _, ok := t.Underlying().(*types.Struct); ok {
		return "F:" + typeKey(t)
	}
	return "C:" + typeKey(t)
}

func elemPrefix(t types.Type) string { return "E:" + typeKey(t) }

func (x *Exec) zero(t types.Type) *Val {
	cs := flatten(t)
	v := &Val{T: t, C: make([]*Term, len(cs))}
	for i, c := range cs {
		if c.sort == 0 {
			v.C[i] = x.tb.False
		} else {
			v.C[i] = x.tb.BV(c.sort, 0)
		}
	}
	return v
}

// fresh makes a symbolic value of type t with a name hint.
func (x *Exec) fresh(t types.Type, hint string) *Val {
	cs := flatten(t)
	v := &Val{T: t, C: make([]*Term, len(cs))}
	x.nsym++
	for i, c := range cs {
		v.C[i] = x.tb.Var(fmt.Sprintf("%s%s!%d", hint, c.suffix, x.nsym), c.sort)
	}
	return v
}

// validity returns the type-invariant facts of a value: slice headers are sane, refs are
// below the allocation frontier `top` (when top != nil).
func (x *Exec) validity(v *Val, top *Term) []*Term {
	tb := x.tb
	var out []*Term
	cs := flatten(v.T)
	lim := tb.BV(64, 1<<48)
	var lenT, offT *Term
	for i, c := range cs {
		switch c.role {
		case 'r':
			if top != nil {
				out = append(out, tb.Cmp("bvule", v.C[i], top))
			}
		case 'o':
			offT = v.C[i]
			out = append(out, tb.Cmp("bvule", v.C[i], lim))
		case 'l':
			lenT = v.C[i]
			out = append(out, tb.Cmp("bvule", v.C[i], lim))
			// strings: ref 0 only with len 0 is not needed
		case 'c':
			out = append(out, tb.Cmp("bvule", lenT, v.C[i]), tb.Cmp("bvule", v.C[i], lim))
			// a nil slice (ref 0) has len = cap = 0
			out = append(out, tb.Implies(tb.Eq(v.C[i-3], tb.BV(64, 0)), tb.Eq(v.C[i], tb.BV(64, 0))))
			_ = offT
		}
	}
	return out
}

func (v *Val) String() string {
	var sb strings.Builder
	for i, c := range v.C {
		if i > 0 {
			sb.WriteString(", ")
		}
		sb.WriteString(c.Pretty(80))
	}
	return sb.String()
}

// merge builds ite(c, a, b) componentwise.
func (x *Exec) mergeVal(c *Term, a, b *Val) (*Val, error) {
	if a == b {
		return a, nil
	}
	if a == nil || b == nil {
		return nil, fmt.Errorf("merge with undefined value")
	}
	if a.Tup != nil || b.Tup != nil {
		if len(a.Tup) != len(b.Tup) {
			return nil, fmt.Errorf("merge tuple arity")
		}
		r := &Val{T: a.T, Tup: make([]*Val, len(a.Tup))}
		for i := range a.Tup {
			m, err := x.mergeVal(c, a.Tup[i], b.Tup[i])
			if err != nil {
				return nil, err
			}
			r.Tup[i] = m
		}
		return r, nil
	}
	if len(a.C) != len(b.C) {
		return nil, fmt.Errorf("merge arity mismatch %s vs %s", a.T, b.T)
	}
	r := &Val{T: a.T, C: make([]*Term, len(a.C))}
	same := true
	for i := range a.C {
		r.C[i] = x.tb.Ite(c, a.C[i], b.C[i])
		if a.C[i] != b.C[i] {
			same = false
		}
	}
	if a.Fn != b.Fn {
		if !same || a.Fn != nil && b.Fn != nil {
			return nil, fmt.Errorf("merge of distinct function values")
		}
	}
	r.Fn = a.Fn
	r.Bind = a.Bind
	if a.A != nil || b.A != nil {
		if a.A == nil || b.A == nil || a.A.prefix != b.A.prefix || len(a.A.keys) != len(b.A.keys) {
			// one side may be a nil pointer constant: keep the other address
			if a.A != nil && b.A == nil && isZeroRef(b) {
				r.A = a.A
				return r, nil
			}
			if b.A != nil && a.A == nil && isZeroRef(a) {
				r.A = b.A
				return r, nil
			}
			return nil, fmt.Errorf("merge of pointers with different provenance")
		}
		r.A = &Addr{prefix: a.A.prefix, keys: make([]*Term, len(a.A.keys))}
		for i := range a.A.keys {
			r.A.keys[i] = x.tb.Ite(c, a.A.keys[i], b.A.keys[i])
		}
	}
	return r, nil
}

func isZeroRef(v *Val) bool {
	return len(v.C) == 1 && v.C[0].IsConst() && v.C[0].Val == 0
}
