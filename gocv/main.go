package main

import (
	"runtime/pprof"
	"encoding/json"
	"flag"
	"fmt"
	"os"
	"regexp"
	"sort"
	"strings"
	"time"

	"golang.org/x/tools/go/ssa"
)

func main() {
	if pf := os.Getenv("GOCV_PROF"); pf != "" {
		f, _ := os.Create(pf)
		pprof.StartCPUProfile(f)
		defer pprof.StopCPUProfile()
	}
	if len(os.Args) > 1 && os.Args[1] == "check" {
		os.Exit(checkMain(os.Args[2:]))
	}
	repo := flag.String("repo", envOr("VERIF_REPO", "/repo"), "repository under verification")
	spec := flag.String("spec", "/verif/spec", "spec library directory")
	pkgs := flag.String("pkgs", ".", "comma separated package dirs relative to repo")
	units := flag.String("units", ".*", "regexp selecting contracts / lemma functions")
	timeout := flag.Int("timeout", 10, "per-obligation solver timeout (s)")
	agree := flag.Int("agree", 1, "solvers that must agree on unsat")
	jobs := flag.Int("jobs", 6, "parallel obligations")
	keep := flag.String("keep", "", "keep SMT scripts in this directory")
	verbose := flag.Bool("v", false, "print every obligation")
	dumpGen := flag.Bool("dumpgen", false, "print generated contract code")
	jsonOut := flag.String("json", "", "write results as JSON")
	vacuity := flag.Bool("vacuity", false, "report the first obligation of each unit whose hypotheses are unsatisfiable")
	focus := flag.String("focus", "", "regexp: dump goal and script of matching obligations to /tmp/gocv-focus")
	flag.IntVar(&listBoundDefault, "listbound", 1, "element bound for repeated fields in generated-code harnesses")
	flag.IntVar(&hsortBits, "hsort", 48, "bits of size components in heaps (debug)")
	flag.Parse()
	t0 := time.Now()
	w, err := LoadWorld(*repo, *spec, strings.Split(*pkgs, ","), nil)
	if err != nil {
		fmt.Fprintln(os.Stderr, "LOAD ERROR:", err)
		os.Exit(2)
	}
	if *dumpGen {
		for p, s := range w.genSrc {
			fmt.Printf("// ===== %s\n%s\n", p, s)
		}
	}
	fmt.Fprintf(os.Stderr, "loaded in %.1fs, %d contracts\n", time.Since(t0).Seconds(), len(w.allContracts))
	re := regexp.MustCompile(*units)
	results := w.RunUnits(func(name string) bool { return re.MatchString(name) })
	tmp := *keep
	if tmp == "" {
		tmp, _ = os.MkdirTemp("", "gocv-")
		defer os.RemoveAll(tmp)
	} else {
		os.MkdirAll(tmp, 0o755)
	}
	so := solveOpts{timeoutS: *timeout, agree: *agree, tmp: tmp, jobs: *jobs, keep: *keep != ""}
	if *focus != "" {
		fre := regexp.MustCompile(*focus)
		os.MkdirAll("/tmp/gocv-focus", 0o755)
		n := 0
		for _, u := range results {
			for _, o := range u.Obligs {
				if fre.MatchString(o.Name) {
					n++
					_, rg := u.exec.hypothesesAndGoal(o)
					fmt.Printf("=== %s\nPC: %s\nGOAL: %s\nhyps=%d extra=%d facts=%d\n", o.Name, o.PC.Pretty(1500), rg.Pretty(5000), o.NHyps, len(o.Extra), len(u.exec.facts))
					os.WriteFile(fmt.Sprintf("/tmp/gocv-focus/f%d.smt2", n), []byte(u.exec.script(o, nil)), 0o644)
					for ci, cj := range conjuncts(o.Goal, nil) {
						if ci < 3 {
							fmt.Printf("  GOALCONJ%d: %s\n", ci, cj.Pretty(6000))
						}
					}
					{
						tb := u.exec.tb
						lits, nlits := map[int]bool{}, map[int]bool{}
						for _, c := range conjuncts(o.PC, nil) {
							lits[c.id] = true
							if c.Op == "not" {
								nlits[c.Args[0].id] = true
							} else {
								nlits[tb.Not(c).id] = true
							}
						}
						for hi, h := range u.exec.assumes[:o.NHyps] {
							if r := tb.RewriteUnder(h, lits, nlits, map[int]*Term{}); r.IsFalse() {
								fmt.Printf("  FALSE-HYP %d: %s\n", hi, h.Pretty(1500))
							}
						}
					}
					hy := u.exec.hypotheses(o)
					for i, h := range hy {
						fmt.Printf("  H%d: %s\n", i, h.Pretty(600))
					}
					rel := u.exec.relevant(o, hy, 1, 6)
					fmt.Printf("relevant: %d of %d\n", len(rel), len(hy))
					os.WriteFile(fmt.Sprintf("/tmp/gocv-focus/f%d_rel.smt2", n), []byte(u.exec.scriptWith(o, nil, rel)), 0o644)
				}
			}
		}
	}
	if *vacuity {
		for _, u := range results {
			for _, o := range u.Obligs {
				o2 := *o
				o2.ExpectSat = true
				f := tmp + "/vac.smt2"
				os.WriteFile(f, []byte(u.exec.script(&o2, nil)), 0o644)
				a := runSolver(contextBG(), solvers[0], f, 10)
				if a.status == "unsat" {
					fmt.Printf("VACUOUS: %s (%s)\n", o.Name, o.Pos)
				}
			}
		}
	}
	t1 := time.Now()
	SolveAll(results, so)
	fmt.Fprintf(os.Stderr, "solved in %.1fs\n", time.Since(t1).Seconds())
	bad := 0
	for _, u := range results {
		nf := 0
		for _, o := range u.Obligs {
			if o.Failed() {
				nf++
			}
		}
		fmt.Printf("%-70s %3d obligations, %d failed", u.Name, len(u.Obligs), nf)
		if len(u.Errs) > 0 || len(u.Unsup) > 0 {
			fmt.Printf("  ERRORS: %s %s", strings.Join(u.Errs, "; "), strings.Join(u.Unsup, "; "))
			bad++
		}
		fmt.Println()
		for _, o := range u.Obligs {
			if *verbose || o.Failed() {
				fmt.Printf("    %-8s %-10s %6.2fs %s  %s\n", o.Status, o.Solver, o.Seconds, o.Name, o.Pos)
				if o.Failed() && o.Status == "sat" && !o.ExpectSat {
					m, _ := modelFor(u, o, so)
					for _, k := range sortedKeys(m) {
						fmt.Printf("        %s = %s\n", k, m[k])
					}
				}
				if o.Failed() && o.Status != "sat" {
					fmt.Printf("        %s\n", firstLine(o.Output))
				}
			}
		}
		bad += nf
	}
	if *jsonOut != "" {
		b, _ := json.MarshalIndent(results, "", " ")
		os.WriteFile(*jsonOut, b, 0o644)
	}
	if bad > 0 {
		if *keep == "" {
			os.RemoveAll(tmp) // os.Exit skips the deferred removal
		}
		os.Exit(1)
	}
}

func envOr(k, d string) string {
	if v := os.Getenv(k); v != "" {
		return v
	}
	return d
}

// RunUnits verifies every contract and lemma harness selected by sel.
func (w *World) RunUnits(sel func(name string) bool) []*UnitResult {
	var out []*UnitResult
	for _, c := range w.allContracts {
		if c.RecvIface || c.Opaque || !sel(c.Key) {
			continue
		}
		out = append(out, w.VerifyUnit(c.Fn, c))
	}
	var lemmas []*ssa.Function
	for _, p := range w.pkgs {
		for name, m := range p.Members {
			if f, ok := m.(*ssa.Function); ok && strings.HasPrefix(name, "lemma_") && sel(name) && w.contracts[f.String()] == nil {
				lemmas = append(lemmas, f)
			}
		}
	}
	sort.Slice(lemmas, func(i, j int) bool { return lemmas[i].Name() < lemmas[j].Name() })
	for _, f := range lemmas {
		out = append(out, w.VerifyUnit(f, nil))
	}
	return out
}

