package main

// Layered memory.  A heap component is a total function from a key (one or two
// bit-vector terms: ref, or ref+index) to a scalar term.  It is kept Go-side as a
// persistent chain of layers over an uninterpreted base function; Select pushes the
// read through the layers (read-over-write), so solvers only ever see applications of
// uninterpreted base functions: no SMT arrays, no quantifiers.

import (
	"fmt"
	"strings"
)

const (
	mBase = iota
	mStore
	mIte
	mCopy
	mHavoc
	mStoreAll // every location holds val
)

type Mem struct {
	kind  int
	prev  *Mem
	name  string // heap component name (all layers)
	arity int
	sort  int
	// base
	ufName   string
	refBound func(*Term) *Term
	lowRefs  bool // refBound is the entry bound (references at most top0)
	// store
	key []*Term
	val *Term
	// ite
	cond *Term
	a, b *Mem
	// copy: for keys (dRef, i) with dLo <= i < dLo+n the value is src[(sRef, i-dLo+sLo)]
	dRef, dLo, n *Term
	src          *Mem
	sRef, sLo    *Term
	// havoc: keys satisfying pred read from fresh
	pred  func(key []*Term) *Term
	fresh *Mem
	cache map[string]*Term
	depth int
}

func keyStr(key []*Term) string {
	var sb strings.Builder
	for _, k := range key {
		fmt.Fprintf(&sb, "%d,", k.id)
	}
	return sb.String()
}

func (x *Exec) newBase(name string, arity, sort int) *Mem {
	x.nsym++
	return &Mem{kind: mBase, name: name, arity: arity, sort: sort, ufName: fmt.Sprintf("%s!%d", name, x.nsym), cache: map[string]*Term{}}
}

func (m *Mem) layer(kind int) *Mem {
	return &Mem{kind: kind, prev: m, name: m.name, arity: m.arity, sort: m.sort, cache: map[string]*Term{}, depth: m.depth + 1}
}

func (m *Mem) Store(tb *TB, key []*Term, val *Term) *Mem {
	if val.Sort != m.sort {
		panic(fmt.Sprintf("store sort mismatch in %s: %d vs %d", m.name, val.Sort, m.sort))
	}
	if len(key) != m.arity {
		panic("store key arity mismatch in " + m.name)
	}
	// overwrite of the same key directly on top
	if m.kind == mStore && keyStr(m.key) == keyStr(key) {
		m = m.prev
	}
	n := m.layer(mStore)
	n.key, n.val = key, val
	return n
}

func MemIte(tb *TB, c *Term, a, b *Mem) *Mem {
	if a == b {
		return a
	}
	if c.IsTrue() {
		return a
	}
	if c.IsFalse() {
		return b
	}
	n := &Mem{kind: mIte, name: a.name, arity: a.arity, sort: a.sort, cond: c, a: a, b: b, cache: map[string]*Term{}}
	n.depth = a.depth
	if b.depth > n.depth {
		n.depth = b.depth
	}
	n.depth++
	return n
}

func (m *Mem) Copy(dRef, dLo, n *Term, src *Mem, sRef, sLo *Term) *Mem {
	l := m.layer(mCopy)
	l.dRef, l.dLo, l.n, l.src, l.sRef, l.sLo = dRef, dLo, n, src, sRef, sLo
	return l
}

func (m *Mem) Havoc(pred func(key []*Term) *Term, fresh *Mem) *Mem {
	l := m.layer(mHavoc)
	l.pred, l.fresh = pred, fresh
	return l
}

func (m *Mem) Select(x *Exec, key []*Term) *Term {
	tb := x.tb
	ks := keyStr(key)
	if t, ok := m.cache[ks]; ok {
		return t
	}
	var r *Term
	switch m.kind {
	case mBase:
		r = tb.App(m.ufName, m.sort, key...)
		if m.refBound != nil {
			x.fact(m.refBound(r))
			if m.lowRefs {
				tb.MarkLow(r)
			}
		}
	case mStore:
		c := tb.True
		for i := range key {
			c = tb.And(c, tb.Eq(key[i], m.key[i]))
		}
		if c.IsTrue() {
			r = m.val
		} else if c.IsFalse() {
			r = m.prev.Select(x, key)
		} else {
			r = tb.Ite(c, m.val, m.prev.Select(x, key))
		}
	case mIte:
		r = tb.Ite(m.cond, m.a.Select(x, key), m.b.Select(x, key))
	case mCopy:
		i := key[1]
		in := tb.And(tb.Eq(key[0], m.dRef), tb.Cmp("bvult", tb.Sub(i, m.dLo), m.n))
		if in.IsFalse() {
			r = m.prev.Select(x, key)
		} else {
			sv := m.src.Select(x, []*Term{m.sRef, tb.Add(tb.Sub(i, m.dLo), m.sLo)})
			if in.IsTrue() {
				r = sv
			} else {
				r = tb.Ite(in, sv, m.prev.Select(x, key))
			}
		}
	case mStoreAll:
		r = m.val
	case mHavoc:
		p := m.pred(key)
		if p.IsFalse() {
			r = m.prev.Select(x, key)
		} else if p.IsTrue() {
			r = m.fresh.Select(x, key)
		} else {
			r = tb.Ite(p, m.fresh.Select(x, key), m.prev.Select(x, key))
		}
	}
	m.cache[ks] = r
	return r
}
