package main

// Discharging obligations: one SMT-LIB script per obligation, raced on the installed
// solvers; first definitive answer wins.

import (
	"runtime"
	"bufio"
	"bytes"
	"context"
	"fmt"
	"os"
	"os/exec"
	"path/filepath"
	"sort"
	"strings"
	"sync"
	"time"
)

type solverDef struct {
	name string
	argv func(file string, timeoutS int) []string
}

var solvers = []solverDef{
	{"z3-5.1.0", func(f string, t int) []string { return []string{"z3-new", fmt.Sprintf("-T:%d", t), f} }},
	{"cvc5-1.0", func(f string, t int) []string {
		return []string{"cvc5", "--lang=smt2", fmt.Sprintf("--tlimit=%d", t*1000), f}
	}},
	{"z3-4.8.12", func(f string, t int) []string { return []string{"z3", fmt.Sprintf("-T:%d", t), f} }},
}

// integer-encoding back ends (lia.go): only an unsat answer is meaningful
var liaSolvers = []solverDef{
	{"z3-5.1.0/int", func(f string, t int) []string { return []string{"z3-new", fmt.Sprintf("-T:%d", t), f} }},
	{"cvc5-1.0/int", func(f string, t int) []string {
		return []string{"cvc5", "--lang=smt2", fmt.Sprintf("--tlimit=%d", t*1000), f}
	}},
}

type solveOpts struct {
	timeoutS int
	agree    int // number of solvers that must say unsat (1 quick, 2 thorough)
	tmp      string
	jobs     int
	keep     bool
}

// simplifyUnder simplifies hypothesis h propositionally, given literals known true (the
// conjuncts of the obligation's path condition).  Returns nil when h is trivially true.
func (x *Exec) simplifyUnder(h *Term, lits map[int]bool) *Term {
	tb := x.tb
	known := func(t *Term) int { // 1 true, -1 false, 0 unknown
		if lits[t.id] {
			return 1
		}
		if t.Op == "not" && lits[t.Args[0].id] {
			return -1
		}
		if n := tb.Not(t); lits[n.id] {
			return -1
		}
		if t.Op == "and" {
			all := true
			for _, c := range t.Args {
				switch {
				case lits[c.id]:
				case c.Op == "not" && lits[c.Args[0].id], lits[tb.Not(c).id]:
					return -1
				default:
					all = false
				}
			}
			if all {
				return 1
			}
		}
		if t.Op == "not" && t.Args[0].Op == "and" {
			all := true
			for _, c := range t.Args[0].Args {
				switch {
				case lits[c.id]:
				case c.Op == "not" && lits[c.Args[0].id], lits[tb.Not(c).id]:
					return 1
				default:
					all = false
				}
			}
			if all {
				return -1
			}
		}
		return 0
	}
	if k := known(h); k == 1 {
		return nil
	}
	if h.Op != "or" {
		return h
	}
	var rest []*Term
	for _, d := range h.Args {
		switch known(d) {
		case 1:
			return nil
		case -1:
		default:
			rest = append(rest, d)
		}
	}
	return tb.Or(rest...)
}

// hypotheses returns the facts and assumptions of obligation o, simplified under its path
// condition: literals of the path condition are replaced by true everywhere (which also
// collapses conditional definitions ite(c, t, v) and read-over-write chains).
func (x *Exec) hypotheses(o *Oblig) []*Term {
	hyps, _ := x.hypothesesAndGoal(o)
	return hyps
}

func (x *Exec) hypothesesAndGoal(o *Oblig) ([]*Term, *Term) {
	tb := x.tb
	lits := map[int]bool{}
	nlits := map[int]bool{}
	for _, c := range conjuncts(o.PC, nil) {
		lits[c.id] = true
		if c.Op == "not" {
			nlits[c.Args[0].id] = true
		} else {
			nlits[tb.Not(c).id] = true
		}
	}
	memo := map[int]*Term{}
	var out []*Term
	seen := map[int]bool{}
	add := func(h *Term) {
		r := tb.RewriteUnder(h, lits, nlits, memo)
		for _, c := range conjuncts(r, nil) {
			if c.IsTrue() || seen[c.id] {
				continue
			}
			seen[c.id] = true
			out = append(out, c)
		}
	}
	for _, f := range x.facts {
		add(f)
	}
	for _, h := range x.assumes[:o.NHyps] {
		add(h)
	}
	for _, h := range o.Extra {
		add(h)
	}
	goal := o.Goal
	if !o.ExpectSat {
		goal = tb.RewriteUnder(o.Goal, lits, nlits, memo)
	}
	// Constant propagation: a hypothesis  T = c  (c a constant, T not) lets every occurrence
	// of T be replaced by c; the hypothesis is kept.
	{
		csub := map[int]*Term{}
		for _, h := range out {
			if h.Op != "=" {
				continue
			}
			for k := 0; k < 2; k++ {
				l, r := h.Args[k], h.Args[1-k]
				if r.IsConst() && !l.IsConst() && l.Sort != 0 && (l.Op == "uf" || l.Op == "var") {
					csub[l.id] = r
				}
			}
		}
		if len(csub) > 0 {
			memo3 := map[int]*Term{}
			for id, t := range csub {
				memo3[id] = t
			}
			none := map[int]bool{}
			var out3 []*Term
			seen3 := map[int]bool{}
			for _, h := range out {
				keep := false
				if h.Op == "=" {
					for k := 0; k < 2; k++ {
						if c, ok := csub[h.Args[k].id]; ok && c == h.Args[1-k] {
							keep = true
						}
					}
				}
				if keep {
					if !seen3[h.id] {
						seen3[h.id] = true
						out3 = append(out3, h)
					}
					continue
				}
				r := tb.RewriteUnder(h, none, none, memo3)
				for _, c := range conjuncts(r, nil) {
					if !c.IsTrue() && !seen3[c.id] {
						seen3[c.id] = true
						out3 = append(out3, c)
					}
				}
			}
			out = out3
			if !o.ExpectSat {
				goal = tb.RewriteUnder(goal, none, none, memo3)
			}
		}
	}
	// Unit propagation: hypotheses that are literals (after the rewriting above) are used like
	// path-condition literals in every OTHER hypothesis and in the goal; they stay in the list.
	for round := 0; round < 3; round++ {
		units := map[int]bool{}
		nunits := map[int]bool{}
		n := 0
		for _, h := range out {
			if h.Op == "or" || h.Op == "and" || h.Op == "ite" || h.IsFalse() || h.IsTrue() {
				continue
			}
			if lits[h.id] {
				continue
			}
			lits[h.id] = true
			units[h.id] = true
			if h.Op == "not" {
				nlits[h.Args[0].id] = true
				nunits[h.Args[0].id] = true
			} else {
				nlits[tb.Not(h).id] = true
				nunits[tb.Not(h).id] = true
			}
			n++
		}
		if n == 0 {
			break
		}
		memo = map[int]*Term{}
		var out2 []*Term
		seen2 := map[int]bool{}
		for _, h := range out {
			if lits[h.id] && h.Op != "or" && h.Op != "and" {
				if !seen2[h.id] {
					seen2[h.id] = true
					out2 = append(out2, h)
				}
				continue
			}
			r := tb.RewriteUnder(h, lits, nlits, memo)
			for _, c := range conjuncts(r, nil) {
				if c.IsTrue() || seen2[c.id] {
					continue
				}
				seen2[c.id] = true
				out2 = append(out2, c)
			}
		}
		out = out2
		if !o.ExpectSat {
			goal = tb.RewriteUnder(goal, lits, nlits, memo)
		}
	}
	// Truncation round trips: a hypothesis  ext(extract[k:0](T)) = T  (the value survives a
	// narrowing conversion, e.g. int(int32(n)) == n) lets every occurrence of the left side
	// be replaced by T.  The hypothesis itself is kept, so this is equals-for-equals.
	sub := map[int]*Term{}
	for _, h := range out {
		if h.Op != "=" {
			continue
		}
		for k := 0; k < 2; k++ {
			l, r := h.Args[k], h.Args[1-k]
			if (l.Op == "sext" || l.Op == "zext") && l.Args[0].Op == "extract" && l.Args[0].P2 == 0 && l.Args[0].Args[0] == r {
				sub[l.id] = r
			}
		}
	}
	if len(sub) > 0 {
		memo2 := map[int]*Term{}
		for id, t := range sub {
			memo2[id] = t
		}
		none := map[int]bool{}
		var out2 []*Term
		for _, h := range out {
			if h.Op == "=" && (sub[h.Args[0].id] == h.Args[1] || sub[h.Args[1].id] == h.Args[0]) {
				out2 = append(out2, h)
				continue
			}
			r := tb.RewriteUnder(h, none, none, memo2)
			for _, c := range conjuncts(r, nil) {
				if !c.IsTrue() {
					out2 = append(out2, c)
				}
			}
		}
		out = out2
		if !o.ExpectSat {
			goal = tb.RewriteUnder(goal, none, none, memo2)
		}
	}
	return out, goal
}

// heapFilter keeps the hypotheses that mention no element-heap symbol ("E:...") absent
// from the goal and path condition.
func (x *Exec) heapFilter(o *Oblig, hyps []*Term) []*Term {
	gs := map[string]bool{}
	seen := map[int]bool{}
	termSyms(o.Goal, gs, seen)
	termSyms(o.PC, gs, seen)
	var out []*Term
	for _, h := range hyps {
		hs := map[string]bool{}
		termSyms(h, hs, map[int]bool{})
		ok := true
		for s := range hs {
			if strings.HasPrefix(s, "E:") && !gs[s] {
				ok = false
				break
			}
		}
		if ok {
			out = append(out, h)
		}
	}
	return out
}

func termSyms(t *Term, into map[string]bool, seen map[int]bool) {
	var st []*Term
	st = append(st, t)
	for len(st) > 0 {
		t := st[len(st)-1]
		st = st[:len(st)-1]
		if seen[t.id] {
			continue
		}
		seen[t.id] = true
		switch t.Op {
		case "var":
			into[t.Name] = true
		case "uf":
			into[t.Name] = true
		}
		st = append(st, t.Args...)
	}
}

// relevant selects hypotheses connected to the goal through non-ubiquitous symbols
// (`rounds` rounds of closure; a symbol is ubiquitous when it occurs in more than
// 1/denom of the hypotheses).  Any subset is sound: it can only make proving harder.
func (x *Exec) relevant(o *Oblig, hyps []*Term, rounds, denom int) []*Term {
	n := len(hyps)
	syms := make([]map[string]bool, n)
	freq := map[string]int{}
	for i, h := range hyps {
		syms[i] = map[string]bool{}
		termSyms(h, syms[i], map[int]bool{})
		for s := range syms[i] {
			freq[s]++
		}
	}
	cur := map[string]bool{}
	seen := map[int]bool{}
	termSyms(o.Goal, cur, seen)
	termSyms(o.PC, cur, seen)
	picked := make([]bool, n)
	for round := 0; round < rounds; round++ {
		add := map[string]bool{}
		for i := range hyps {
			if picked[i] {
				continue
			}
			for s := range syms[i] {
				if cur[s] && freq[s]*denom <= n+denom {
					picked[i] = true
					break
				}
			}
			if picked[i] {
				for s := range syms[i] {
					add[s] = true
				}
			}
		}
		for s := range add {
			cur[s] = true
		}
	}
	var out []*Term
	for i, h := range hyps {
		if picked[i] || len(syms[i]) <= 1 {
			out = append(out, h)
		}
	}
	return out
}

func (x *Exec) script(o *Oblig, queries []*Term) string {
	hyps, goal := x.hypothesesAndGoal(o)
	o2 := *o
	o2.Goal = goal
	return x.scriptWith(&o2, queries, hyps)
}

func (x *Exec) scriptWith(o *Oblig, queries []*Term, hyps []*Term) string {
	tb := x.tb
	s := tb.NewScript()
	for _, h := range hyps {
		s.Assert(h)
	}
	s.Assert(o.PC)
	if !o.ExpectSat {
		s.Assert(tb.Not(o.Goal))
	}
	tail := "(check-sat)\n"
	if len(queries) > 0 {
		var names []string
		for _, q := range queries {
			names = append(names, s.Named(q))
		}
		tail += "(get-value (" + strings.Join(names, " ") + "))\n"
	}
	return s.String("QF_UFBV", tail)
}

type solverAnswer struct {
	solver string
	status string // sat unsat unknown timeout error
	out    string
	secs   float64
}

// procSem bounds the number of solver processes running at once to the number of cores, so
// that a solver's time limit measures solving, not waiting for a CPU.
var procSem = make(chan struct{}, runtime.NumCPU())

func runSolver(ctx context.Context, sd solverDef, file string, timeoutS int) solverAnswer {
	argv := sd.argv(file, timeoutS)
	select {
	case procSem <- struct{}{}:
	case <-ctx.Done():
		return solverAnswer{sd.name, "cancelled", "", 0}
	}
	defer func() { <-procSem }()
	t0 := time.Now()
	cctx, cancel := context.WithTimeout(ctx, time.Duration(timeoutS+2)*time.Second)
	defer cancel()
	cmd := exec.CommandContext(cctx, argv[0], argv[1:]...)
	var out bytes.Buffer
	cmd.Stdout = &out
	cmd.Stderr = &out
	err := cmd.Run()
	secs := time.Since(t0).Seconds()
	text := out.String()
	first := ""
	sc := bufio.NewScanner(strings.NewReader(text))
	for sc.Scan() {
		l := strings.TrimSpace(sc.Text())
		if l == "sat" || l == "unsat" || l == "unknown" || l == "timeout" {
			first = l
			break
		}
	}
	if strings.Contains(text, "(error") {
		return solverAnswer{sd.name, "error", text, secs}
	}
	switch first {
	case "sat", "unsat":
		return solverAnswer{sd.name, first, text, secs}
	case "unknown", "timeout":
		return solverAnswer{sd.name, "unknown", text, secs}
	}
	if ctx.Err() != nil {
		return solverAnswer{sd.name, "cancelled", text, secs}
	}
	if cctx.Err() != nil || strings.Contains(text, "timeout") || strings.Contains(text, "interrupted") {
		return solverAnswer{sd.name, "unknown", "timeout\n" + text, secs}
	}
	_ = err
	return solverAnswer{sd.name, "error", text, secs}
}

// solveOne races the solvers on one script.
func solveOne(file string, so solveOpts, expectSat bool, liaFile ...string) (status, solver string, secs float64, output string, agreeing []string) {
	ctx, cancel := context.WithCancel(context.Background())
	defer cancel()
	total := len(solvers)
	ch := make(chan solverAnswer, len(solvers)+len(liaSolvers))
	for _, sd := range solvers {
		sd := sd
		go func() { ch <- runSolver(ctx, sd, file, so.timeoutS) }()
	}
	if len(liaFile) > 0 && liaFile[0] != "" && !expectSat {
		for _, sd := range liaSolvers {
			sd := sd
			total++
			go func() {
				a := runSolver(ctx, sd, liaFile[0], so.timeoutS)
				if a.status != "unsat" {
					a.status = "unknown" // sat on the abstraction means nothing
					if len(a.out) > 200 {
						a.out = a.out[:200]
					}
				}
				ch <- a
			}()
		}
	}
	need := so.agree
	if expectSat {
		need = 1
	}
	var unknowns []string
	var errs []string
	t0 := time.Now()
	for i := 0; i < total; i++ {
		a := <-ch
		switch a.status {
		case "sat":
			return "sat", a.solver, time.Since(t0).Seconds(), a.out, []string{a.solver}
		case "unsat":
			agreeing = append(agreeing, a.solver)
			if len(agreeing) >= need {
				return "unsat", strings.Join(agreeing, "+"), time.Since(t0).Seconds(), a.out, agreeing
			}
		case "unknown":
			unknowns = append(unknowns, a.solver+": "+firstLine(a.out))
		case "error":
			errs = append(errs, a.solver+": "+firstLine(a.out))
		}
	}
	if len(agreeing) > 0 {
		// fewer solvers than requested agreed, none disagreed
		return "unsat", strings.Join(agreeing, "+"), time.Since(t0).Seconds(), "", agreeing
	}
	if len(unknowns) > 0 {
		return "unknown", "", time.Since(t0).Seconds(), strings.Join(append(unknowns, errs...), "; "), nil
	}
	return "error", "", time.Since(t0).Seconds(), strings.Join(errs, "; "), nil
}

func firstLine(s string) string {
	s = strings.TrimSpace(s)
	if i := strings.IndexByte(s, '\n'); i >= 0 {
		s = s[:i]
	}
	if len(s) > 200 {
		s = s[:200]
	}
	return s
}

type job struct {
	x      *Exec
	o      *Oblig
	parent *Oblig // case of a path-condition split
}

// dnf expands a path condition into at most limit conjunctive cases (nil when it would
// need more).
func (x *Exec) dnf(t *Term, limit int) []*Term {
	tb := x.tb
	var rec func(t *Term) []*Term
	fail := false
	rec = func(t *Term) []*Term {
		if fail {
			return nil
		}
		switch t.Op {
		case "or":
			var out []*Term
			for _, a := range t.Args {
				out = append(out, rec(a)...)
				if len(out) > limit {
					fail = true
					return nil
				}
			}
			return out
		case "and":
			cur := []*Term{tb.True}
			for _, a := range t.Args {
				if a.Op != "or" && a.Op != "and" {
					for i := range cur {
						cur[i] = tb.And(cur[i], a)
					}
					continue
				}
				sub := rec(a)
				var next []*Term
				for _, c := range cur {
					for _, s := range sub {
						if n := tb.And(c, s); !n.IsFalse() {
							next = append(next, n)
						}
					}
				}
				if len(next) > limit {
					fail = true
					return nil
				}
				cur = next
			}
			return cur
		}
		return []*Term{t}
	}
	out := rec(t)
	if fail {
		return nil
	}
	var res []*Term
	for _, c := range out {
		if !c.IsFalse() {
			res = append(res, c)
		}
	}
	return res
}

// SolveAll discharges the obligations of all units in parallel.
func SolveAll(units []*UnitResult, so solveOpts) {
	var jobs []job
	for _, u := range units {
		for _, o := range u.Obligs {
			if o.Trivial {
				continue
			}
			if !o.ExpectSat && (o.PC.Op == "or" || o.PC.Op == "and") {
				if cases := u.exec.dnf(o.PC, 24); len(cases) > 1 {
					for k, c := range cases {
						sub := *o
						sub.PC = c
						sub.Name = fmt.Sprintf("%s/case%d", o.Name, k)
						sub.Status, sub.Solver, sub.Seconds = "", "", 0
						jobs = append(jobs, job{u.exec, &sub, o})
					}
					o.Status = "split"
					continue
				}
			}
			jobs = append(jobs, job{u.exec, o, nil})
		}
	}
	// scripts must be rendered sequentially per Exec (term tables are not concurrency safe)
	files := make([]string, len(jobs))
	lias := make([]string, len(jobs))
	small := make([][]string, len(jobs))
	smallLia := map[string]string{}
	for i, j := range jobs {
		hyps, goal := j.x.hypothesesAndGoal(j.o)
		og := *j.o
		og.Goal = goal
		if goal.IsTrue() && !j.o.ExpectSat {
			j.o.Status, j.o.Solver = "unsat", "simplifier"
			continue
		}
		f := filepath.Join(so.tmp, fmt.Sprintf("o%05d.smt2", i))
		if err := os.WriteFile(f, []byte(j.x.scriptWith(&og, nil, hyps)), 0o644); err != nil {
			j.o.Status = "error"
			j.o.Output = err.Error()
			continue
		}
		files[i] = f
		if !j.o.ExpectSat {
			fl := filepath.Join(so.tmp, fmt.Sprintf("o%05d_int.smt2", i))
			if os.WriteFile(fl, []byte(j.x.scriptLIA(&og, hyps)), 0o644) == nil {
				lias[i] = fl
			}
		}
		if !j.o.ExpectSat && len(hyps) > 12 {
			// slice 0: drop hypotheses about element-heap contents the goal does not mention
			// (byte-level facts are irrelevant to cursor/size arithmetic and vice versa)
			if hf := j.x.heapFilter(&og, hyps); len(hf) < len(hyps) {
				fs := filepath.Join(so.tmp, fmt.Sprintf("o%05d_relh.smt2", i))
				if os.WriteFile(fs, []byte(j.x.scriptWith(&og, nil, hf)), 0o644) == nil {
					small[i] = append(small[i], fs)
				}
				fl := filepath.Join(so.tmp, fmt.Sprintf("o%05d_relh_int.smt2", i))
				if os.WriteFile(fl, []byte(j.x.scriptLIA(&og, hf)), 0o644) == nil {
					smallLia[fs] = fl
				}
			}
			prev := 0
			for k, cfg := range [][2]int{{1, 6}, {2, 4}} {
				rel := j.x.relevant(&og, hyps, cfg[0], cfg[1])
				if len(rel) == prev || len(rel)*5 > len(hyps)*4 {
					continue
				}
				prev = len(rel)
				fs := filepath.Join(so.tmp, fmt.Sprintf("o%05d_rel%d.smt2", i, k))
				if os.WriteFile(fs, []byte(j.x.scriptWith(&og, nil, rel)), 0o644) == nil {
					small[i] = append(small[i], fs)
				}
			}
		}
	}
	var wg sync.WaitGroup
	sem := make(chan struct{}, so.jobs)
	for i := range jobs {
		if files[i] == "" {
			continue
		}
		wg.Add(1)
		sem <- struct{}{}
		go func(i int) {
			defer wg.Done()
			defer func() { <-sem }()
			o := jobs[i].o
			// stage A: everything, short timeout
			cleanup := func() {
				if so.keep {
					return
				}
				for _, f := range small[i] {
					os.Remove(f)
					if l := smallLia[f]; l != "" {
						os.Remove(l)
					}
				}
				os.Remove(files[i])
				if lias[i] != "" {
					os.Remove(lias[i])
				}
			}
			// stage 0: one solver, two seconds (most obligations are easy)
			if so.agree <= 1 {
				a := runSolver(context.Background(), solvers[0], files[i], 2)
				o.Seconds += a.secs
				if a.status == "unsat" || a.status == "sat" {
					o.Status, o.Solver, o.Output = a.status, a.solver, a.out
					cleanup()
					return
				}
			}
			tried := map[string]bool{}
			if so.timeoutS > 10 && !o.ExpectSat && so.agree <= 1 {
				// stage 1: the heap-filtered slice (first in small[i] when it exists) - the
				// variant that most often decides size/cursor arithmetic
				for _, fs := range small[i] {
					if !strings.HasSuffix(fs, "_relh.smt2") {
						continue
					}
					so1 := so
					so1.timeoutS = 8
					st, sv, secs, _, _ := solveOne(fs, so1, false, smallLia[fs])
					o.Seconds += secs
					tried[fs] = true
					if st == "unsat" {
						o.Status, o.Solver, o.Output = st, sv+"@relh", ""
						o.Sliced = true
						cleanup()
						return
					}
				}
			}
			if so.timeoutS > 10 && !o.ExpectSat {
				soA := so
				soA.timeoutS = 10
				st, sv, secs, out, _ := solveOne(files[i], soA, false, lias[i])
				o.Seconds += secs
				if st == "unsat" || st == "sat" {
					o.Status, o.Solver, o.Output = st, sv, out
					cleanup()
					return
				}
				// stage B: subsets of the hypotheses (only an unsat answer counts)
				for _, fs := range small[i] {
					if tried[fs] {
						continue
					}
					so1 := so
					so1.timeoutS = 8
					st, sv, secs, _, _ := solveOne(fs, so1, false, smallLia[fs])
					o.Seconds += secs
					if st == "unsat" {
						tag := strings.TrimSuffix(fs[strings.LastIndex(fs, "_")+1:], ".smt2")
						o.Status, o.Solver, o.Output = st, sv+"@"+tag, ""
						o.Sliced = true
						cleanup()
						return
					}
				}
			}
			defer cleanup()
			st, sv, secs, out, _ := solveOne(files[i], so, o.ExpectSat, lias[i])
			o.Status, o.Solver, o.Output = st, sv, out
			o.Seconds += secs
		}(i)
	}
	wg.Wait()
	// combine path-condition cases
	type agg struct {
		n, unsat int
		sat      *Oblig
		worst    *Oblig
		secs     float64
		solvers  map[string]bool
	}
	aggs := map[*Oblig]*agg{}
	for _, j := range jobs {
		if j.parent == nil {
			continue
		}
		a := aggs[j.parent]
		if a == nil {
			a = &agg{solvers: map[string]bool{}}
			aggs[j.parent] = a
		}
		a.n++
		a.secs += j.o.Seconds
		switch j.o.Status {
		case "unsat":
			a.unsat++
			a.solvers[j.o.Solver] = true
		case "sat":
			if a.sat == nil {
				a.sat = j.o
			}
		default:
			a.worst = j.o
		}
	}
	for p, a := range aggs {
		p.Seconds = a.secs
		switch {
		case a.sat != nil:
			p.Status, p.Solver, p.Output = "sat", a.sat.Solver, a.sat.Output
			p.PC = a.sat.PC // the failing case: used for the counterexample
		case a.unsat == a.n:
			var ss []string
			for s := range a.solvers {
				ss = append(ss, s)
			}
			sort.Strings(ss)
			p.Status, p.Solver = "unsat", ss[0]
			p.Cases = a.n
		default:
			p.Status, p.Solver, p.Output = a.worst.Status, "", a.worst.Output
		}
	}
}

// Failed reports whether the obligation counts as not discharged.
func (o *Oblig) Failed() bool {
	if o.ExpectSat {
		return o.Status == "unsat"
	}
	return o.Status != "unsat"
}

// modelFor re-runs a sat obligation with get-value on the unit's inputs and returns
// name -> value text.
func modelFor(u *UnitResult, o *Oblig, so solveOpts) (map[string]string, string) {
	x := u.exec
	names, terms := x.inputQueries(u)
	f := filepath.Join(so.tmp, "model.smt2")
	os.WriteFile(f, []byte(x.script(o, terms)), 0o644)
	defer os.Remove(f)
	for _, sd := range []solverDef{solvers[0], solvers[2], solvers[1]} {
		a := runSolver(context.Background(), sd, f, so.timeoutS)
		if a.status != "sat" {
			continue
		}
		vals := parseGetValue(a.out)
		if len(vals) != len(names) {
			continue
		}
		m := map[string]string{}
		for i, n := range names {
			m[n] = vals[i]
		}
		return m, a.out
	}
	return nil, ""
}

// parseGetValue extracts the value of each pair of a (get-value ...) answer, in order.
func parseGetValue(out string) []string {
	i := strings.Index(out, "((")
	if i < 0 {
		return nil
	}
	s := out[i:]
	var vals []string
	depth := 0
	start := -1
	for k := 0; k < len(s); k++ {
		switch s[k] {
		case '(':
			depth++
			if depth == 2 {
				start = k
			}
		case ')':
			if depth == 2 && start >= 0 {
				pair := s[start+1 : k]
				// value is the last token / s-expr
				pair = strings.TrimSpace(pair)
				v := lastSexp(pair)
				vals = append(vals, v)
				start = -1
			}
			depth--
			if depth == 0 {
				return vals
			}
		}
	}
	return vals
}

func lastSexp(s string) string {
	s = strings.TrimSpace(s)
	if strings.HasSuffix(s, ")") {
		d := 0
		for k := len(s) - 1; k >= 0; k-- {
			if s[k] == ')' {
				d++
			} else if s[k] == '(' {
				d--
				if d == 0 {
					return s[k:]
				}
			}
		}
	}
	if j := strings.LastIndexAny(s, " \t\n"); j >= 0 {
		return s[j+1:]
	}
	return s
}

func parseBV(v string) (uint64, bool) {
	v = strings.TrimSpace(v)
	switch {
	case strings.HasPrefix(v, "#x"):
		var r uint64
		_, err := fmt.Sscanf(v[2:], "%x", &r)
		return r, err == nil
	case strings.HasPrefix(v, "#b"):
		var r uint64
		for _, c := range v[2:] {
			r = r<<1 | uint64(c-'0')
		}
		return r, true
	case v == "true":
		return 1, true
	case v == "false":
		return 0, true
	case strings.HasPrefix(v, "(_ bv"):
		var r uint64
		var w int
		_, err := fmt.Sscanf(v, "(_ bv%d %d)", &r, &w)
		return r, err == nil
	}
	return 0, false
}

func sortedKeys(m map[string]string) []string {
	var ks []string
	for k := range m {
		ks = append(ks, k)
	}
	sort.Strings(ks)
	return ks
}
