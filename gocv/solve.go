package main

// Discharging obligations: one SMT-LIB script per obligation, raced on the installed
// solvers; first definitive answer wins.

import (
	"bufio"
	"bytes"
	"context"
	"fmt"
	"os"
	"os/exec"
	"path/filepath"
	"sort"
	"strings"
	"sync"
	"time"
)

type solverDef struct {
	name string
	argv func(file string, timeoutS int) []string
}

var solvers = []solverDef{
	{"z3-5.1.0", func(f string, t int) []string { return []string{"z3-new", fmt.Sprintf("-T:%d", t), f} }},
	{"cvc5-1.0", func(f string, t int) []string {
		return []string{"cvc5", "--lang=smt2", fmt.Sprintf("--tlimit=%d", t*1000), f}
	}},
	{"z3-4.8.12", func(f string, t int) []string { return []string{"z3", fmt.Sprintf("-T:%d", t), f} }},
}

type solveOpts struct {
	timeoutS int
	agree    int // number of solvers that must say unsat (1 quick, 2 thorough)
	tmp      string
	jobs     int
	keep     bool
}

func (x *Exec) script(o *Oblig, queries []*Term) string {
	tb := x.tb
	s := tb.NewScript()
	for _, f := range x.facts {
		s.Assert(f)
	}
	for _, h := range x.assumes[:o.NHyps] {
		s.Assert(h)
	}
	for _, e := range o.Extra {
		s.Assert(e)
	}
	s.Assert(o.PC)
	if !o.ExpectSat {
		s.Assert(tb.Not(o.Goal))
	}
	tail := "(check-sat)\n"
	if len(queries) > 0 {
		var names []string
		for _, q := range queries {
			names = append(names, s.Named(q))
		}
		tail += "(get-value (" + strings.Join(names, " ") + "))\n"
	}
	return s.String("QF_UFBV", tail)
}

type solverAnswer struct {
	solver string
	status string // sat unsat unknown timeout error
	out    string
	secs   float64
}

func runSolver(ctx context.Context, sd solverDef, file string, timeoutS int) solverAnswer {
	argv := sd.argv(file, timeoutS)
	t0 := time.Now()
	cctx, cancel := context.WithTimeout(ctx, time.Duration(timeoutS+2)*time.Second)
	defer cancel()
	cmd := exec.CommandContext(cctx, argv[0], argv[1:]...)
	var out bytes.Buffer
	cmd.Stdout = &out
	cmd.Stderr = &out
	err := cmd.Run()
	secs := time.Since(t0).Seconds()
	text := out.String()
	first := ""
	sc := bufio.NewScanner(strings.NewReader(text))
	for sc.Scan() {
		l := strings.TrimSpace(sc.Text())
		if l == "sat" || l == "unsat" || l == "unknown" || l == "timeout" {
			first = l
			break
		}
	}
	if strings.Contains(text, "(error") {
		return solverAnswer{sd.name, "error", text, secs}
	}
	switch first {
	case "sat", "unsat":
		return solverAnswer{sd.name, first, text, secs}
	case "unknown", "timeout":
		return solverAnswer{sd.name, "unknown", text, secs}
	}
	if ctx.Err() != nil {
		return solverAnswer{sd.name, "cancelled", text, secs}
	}
	if cctx.Err() != nil || strings.Contains(text, "timeout") || strings.Contains(text, "interrupted") {
		return solverAnswer{sd.name, "unknown", "timeout\n" + text, secs}
	}
	_ = err
	return solverAnswer{sd.name, "error", text, secs}
}

// solveOne races the solvers on one script.
func solveOne(file string, so solveOpts, expectSat bool) (status, solver string, secs float64, output string, agreeing []string) {
	ctx, cancel := context.WithCancel(context.Background())
	defer cancel()
	ch := make(chan solverAnswer, len(solvers))
	for _, sd := range solvers {
		sd := sd
		go func() { ch <- runSolver(ctx, sd, file, so.timeoutS) }()
	}
	need := so.agree
	if expectSat {
		need = 1
	}
	var unknowns []string
	var errs []string
	t0 := time.Now()
	for i := 0; i < len(solvers); i++ {
		a := <-ch
		switch a.status {
		case "sat":
			return "sat", a.solver, time.Since(t0).Seconds(), a.out, []string{a.solver}
		case "unsat":
			agreeing = append(agreeing, a.solver)
			if len(agreeing) >= need {
				return "unsat", strings.Join(agreeing, "+"), time.Since(t0).Seconds(), a.out, agreeing
			}
		case "unknown":
			unknowns = append(unknowns, a.solver+": "+firstLine(a.out))
		case "error":
			errs = append(errs, a.solver+": "+firstLine(a.out))
		}
	}
	if len(agreeing) > 0 {
		// fewer solvers than requested agreed, none disagreed
		return "unsat", strings.Join(agreeing, "+"), time.Since(t0).Seconds(), "", agreeing
	}
	if len(unknowns) > 0 {
		return "unknown", "", time.Since(t0).Seconds(), strings.Join(append(unknowns, errs...), "; "), nil
	}
	return "error", "", time.Since(t0).Seconds(), strings.Join(errs, "; "), nil
}

func firstLine(s string) string {
	s = strings.TrimSpace(s)
	if i := strings.IndexByte(s, '\n'); i >= 0 {
		s = s[:i]
	}
	if len(s) > 200 {
		s = s[:200]
	}
	return s
}

type job struct {
	x *Exec
	o *Oblig
}

// SolveAll discharges the obligations of all units in parallel.
func SolveAll(units []*UnitResult, so solveOpts) {
	var jobs []job
	for _, u := range units {
		for _, o := range u.Obligs {
			if o.Trivial {
				continue
			}
			jobs = append(jobs, job{u.exec, o})
		}
	}
	// scripts must be rendered sequentially per Exec (term tables are not concurrency safe)
	files := make([]string, len(jobs))
	for i, j := range jobs {
		f := filepath.Join(so.tmp, fmt.Sprintf("o%05d.smt2", i))
		if err := os.WriteFile(f, []byte(j.x.script(j.o, nil)), 0o644); err != nil {
			j.o.Status = "error"
			j.o.Output = err.Error()
			continue
		}
		files[i] = f
	}
	var wg sync.WaitGroup
	sem := make(chan struct{}, so.jobs)
	for i := range jobs {
		if files[i] == "" {
			continue
		}
		wg.Add(1)
		sem <- struct{}{}
		go func(i int) {
			defer wg.Done()
			defer func() { <-sem }()
			o := jobs[i].o
			st, sv, secs, out, _ := solveOne(files[i], so, o.ExpectSat)
			o.Status, o.Solver, o.Seconds, o.Output = st, sv, secs, out
			if !so.keep {
				os.Remove(files[i])
			}
		}(i)
	}
	wg.Wait()
}

// Failed reports whether the obligation counts as not discharged.
func (o *Oblig) Failed() bool {
	if o.ExpectSat {
		return o.Status == "unsat"
	}
	return o.Status != "unsat"
}

// modelFor re-runs a sat obligation with get-value on the unit's inputs and returns
// name -> value text.
func modelFor(u *UnitResult, o *Oblig, so solveOpts) (map[string]string, string) {
	x := u.exec
	names, terms := x.inputQueries(u)
	f := filepath.Join(so.tmp, "model.smt2")
	os.WriteFile(f, []byte(x.script(o, terms)), 0o644)
	defer os.Remove(f)
	for _, sd := range []solverDef{solvers[0], solvers[2], solvers[1]} {
		a := runSolver(context.Background(), sd, f, so.timeoutS)
		if a.status != "sat" {
			continue
		}
		vals := parseGetValue(a.out)
		if len(vals) != len(names) {
			continue
		}
		m := map[string]string{}
		for i, n := range names {
			m[n] = vals[i]
		}
		return m, a.out
	}
	return nil, ""
}

// parseGetValue extracts the value of each pair of a (get-value ...) answer, in order.
func parseGetValue(out string) []string {
	i := strings.Index(out, "((")
	if i < 0 {
		return nil
	}
	s := out[i:]
	var vals []string
	depth := 0
	start := -1
	for k := 0; k < len(s); k++ {
		switch s[k] {
		case '(':
			depth++
			if depth == 2 {
				start = k
			}
		case ')':
			if depth == 2 && start >= 0 {
				pair := s[start+1 : k]
				// value is the last token / s-expr
				pair = strings.TrimSpace(pair)
				v := lastSexp(pair)
				vals = append(vals, v)
				start = -1
			}
			depth--
			if depth == 0 {
				return vals
			}
		}
	}
	return vals
}

func lastSexp(s string) string {
	s = strings.TrimSpace(s)
	if strings.HasSuffix(s, ")") {
		d := 0
		for k := len(s) - 1; k >= 0; k-- {
			if s[k] == ')' {
				d++
			} else if s[k] == '(' {
				d--
				if d == 0 {
					return s[k:]
				}
			}
		}
	}
	if j := strings.LastIndexAny(s, " \t\n"); j >= 0 {
		return s[j+1:]
	}
	return s
}

func parseBV(v string) (uint64, bool) {
	v = strings.TrimSpace(v)
	switch {
	case strings.HasPrefix(v, "#x"):
		var r uint64
		_, err := fmt.Sscanf(v[2:], "%x", &r)
		return r, err == nil
	case strings.HasPrefix(v, "#b"):
		var r uint64
		for _, c := range v[2:] {
			r = r<<1 | uint64(c-'0')
		}
		return r, true
	case v == "true":
		return 1, true
	case v == "false":
		return 0, true
	case strings.HasPrefix(v, "(_ bv"):
		var r uint64
		var w int
		_, err := fmt.Sscanf(v, "(_ bv%d %d)", &r, &w)
		return r, err == nil
	}
	return 0, false
}

func sortedKeys(m map[string]string) []string {
	var ks []string
	for k := range m {
		ks = append(ks, k)
	}
	sort.Strings(ks)
	return ks
}
