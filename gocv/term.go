package main

// Hash-consed quantifier-free terms over Bool and fixed-width bit-vectors plus
// uninterpreted functions (QF_UFBV).  Constant folding and light simplification happen at
// construction; printing emits one define-fun per shared interior node.

import (
	"fmt"
	"math/bits"
	"sort"
	"strings"
)

// Term is an immutable DAG node.  Sort 0 is Bool, n>0 is (_ BitVec n), n<=64.
type Term struct {
	Op   string
	Args []*Term
	Sort int
	Val  uint64 // const
	Name string // var / uf
	P1   int    // extract hi / extend amount
	P2   int    // extract lo
	id   int
}

type ufDecl struct {
	name string
	args []int
	ret  int
}

// TB is the term builder (one per verification run; not concurrency safe).
type TB struct {
	tab   map[string]*Term
	n     int
	ufs   map[string]*ufDecl
	vars  map[string]int
	True  *Term
	False *Term
	linc  map[int]*linForm
	lowRef map[int]bool
}

func NewTB() *TB {
	tb := &TB{tab: map[string]*Term{}, ufs: map[string]*ufDecl{}, vars: map[string]int{}, linc: map[int]*linForm{}}
	tb.True = tb.mk(&Term{Op: "true", Sort: 0})
	tb.False = tb.mk(&Term{Op: "false", Sort: 0})
	return tb
}

func (tb *TB) key(t *Term) string {
	var sb strings.Builder
	sb.WriteString(t.Op)
	sb.WriteByte('|')
	fmt.Fprintf(&sb, "%d|%d|%s|%d|%d", t.Sort, t.Val, t.Name, t.P1, t.P2)
	for _, a := range t.Args {
		fmt.Fprintf(&sb, ",%d", a.id)
	}
	return sb.String()
}

func (tb *TB) mk(t *Term) *Term {
	k := tb.key(t)
	if e, ok := tb.tab[k]; ok {
		return e
	}
	tb.n++
	t.id = tb.n
	tb.tab[k] = t
	return t
}

func mask(n int) uint64 {
	if n >= 64 {
		return ^uint64(0)
	}
	return (uint64(1) << uint(n)) - 1
}

func (t *Term) IsConst() bool { return t.Op == "const" || t.Op == "true" || t.Op == "false" }
func (t *Term) IsTrue() bool  { return t.Op == "true" }
func (t *Term) IsFalse() bool { return t.Op == "false" }

func (tb *TB) BV(n int, v uint64) *Term {
	if n <= 0 || n > 64 {
		panic(fmt.Sprintf("bad bv width %d", n))
	}
	return tb.mk(&Term{Op: "const", Sort: n, Val: v & mask(n)})
}
func (tb *TB) Bool(b bool) *Term {
	if b {
		return tb.True
	}
	return tb.False
}

func (tb *TB) Var(name string, sort int) *Term {
	if s, ok := tb.vars[name]; ok && s != sort {
		panic("var redeclared with other sort: " + name)
	}
	tb.vars[name] = sort
	return tb.mk(&Term{Op: "var", Sort: sort, Name: name})
}

// App applies an uninterpreted function.
func (tb *TB) App(name string, ret int, args ...*Term) *Term {
	if len(args) == 0 {
		return tb.Var(name, ret)
	}
	d, ok := tb.ufs[name]
	if !ok {
		d = &ufDecl{name: name, ret: ret}
		for _, a := range args {
			d.args = append(d.args, a.Sort)
		}
		tb.ufs[name] = d
	} else {
		if d.ret != ret || len(d.args) != len(args) {
			panic("uf signature mismatch: " + name)
		}
		for i, a := range args {
			if d.args[i] != a.Sort {
				panic(fmt.Sprintf("uf arg sort mismatch: %s arg %d: %d vs %d", name, i, d.args[i], a.Sort))
			}
		}
	}
	return tb.mk(&Term{Op: "uf", Sort: ret, Name: name, Args: args})
}

func (tb *TB) Not(a *Term) *Term {
	if a.Sort != 0 {
		panic("Not on non-bool")
	}
	switch a.Op {
	case "true":
		return tb.False
	case "false":
		return tb.True
	case "not":
		return a.Args[0]
	}
	return tb.mk(&Term{Op: "not", Sort: 0, Args: []*Term{a}})
}

func (tb *TB) nary(op string, unit, zero *Term, as []*Term) *Term {
	var flat []*Term
	seen := map[int]bool{}
	var add func(t *Term) bool
	add = func(t *Term) bool {
		if t.Sort != 0 {
			panic(op + " on non-bool")
		}
		if t == zero {
			return false
		}
		if t == unit {
			return true
		}
		if t.Op == op {
			for _, x := range t.Args {
				if !add(x) {
					return false
				}
			}
			return true
		}
		if seen[t.id] {
			return true
		}
		seen[t.id] = true
		flat = append(flat, t)
		return true
	}
	for _, a := range as {
		if !add(a) {
			return zero
		}
	}
	// x and not x
	for _, t := range flat {
		if t.Op == "not" && seen[t.Args[0].id] {
			return zero
		}
	}
	if len(flat) == 0 {
		return unit
	}
	if len(flat) == 1 {
		return flat[0]
	}
	return tb.mk(&Term{Op: op, Sort: 0, Args: flat})
}

func (tb *TB) And(as ...*Term) *Term { return tb.nary("and", tb.True, tb.False, as) }
func (tb *TB) Or(as ...*Term) *Term  { return tb.nary("or", tb.False, tb.True, as) }
func (tb *TB) Implies(a, b *Term) *Term {
	return tb.Or(tb.Not(a), b)
}

func (tb *TB) Ite(c, a, b *Term) *Term {
	if c.Sort != 0 {
		panic("ite cond not bool")
	}
	if a.Sort != b.Sort {
		panic(fmt.Sprintf("ite sort mismatch %d %d", a.Sort, b.Sort))
	}
	if c.IsTrue() {
		return a
	}
	if c.IsFalse() {
		return b
	}
	if a == b {
		return a
	}
	if a.Sort == 0 {
		if a.IsTrue() && b.IsFalse() {
			return c
		}
		if a.IsFalse() && b.IsTrue() {
			return tb.Not(c)
		}
		if a.IsTrue() {
			return tb.Or(c, b)
		}
		if a.IsFalse() {
			return tb.And(tb.Not(c), b)
		}
		if b.IsTrue() {
			return tb.Or(tb.Not(c), a)
		}
		if b.IsFalse() {
			return tb.And(c, a)
		}
	}
	if c.Op == "not" {
		return tb.Ite(c.Args[0], b, a)
	}
	// ite(c, x, ite(c, y, z)) = ite(c, x, z)
	if b.Op == "ite" && b.Args[0] == c {
		return tb.Ite(c, a, b.Args[2])
	}
	if a.Op == "ite" && a.Args[0] == c {
		return tb.Ite(c, a.Args[1], b)
	}
	// ite(c, S+a', S+b') = S + ite(c, a', b'): the linear part common to both branches is
	// factored out, so accumulated sums (sizes, cursors) stay flat linear forms whose
	// conditional contributions are separate atoms; two accumulations of the same
	// contributions then become the same term.
	if a.Sort > 8 {
		la, lb := tb.lin(a), tb.lin(b)
		if len(la.atoms) >= 1 && len(lb.atoms) >= 1 {
			common := &linForm{n: a.Sort}
			i, j := 0, 0
			for i < len(la.atoms) && j < len(lb.atoms) {
				switch {
				case la.atoms[i].id < lb.atoms[j].id:
					i++
				case lb.atoms[j].id < la.atoms[i].id:
					j++
				default:
					if la.coeffs[i] == lb.coeffs[j] {
						common.atoms = append(common.atoms, la.atoms[i])
						common.coeffs = append(common.coeffs, la.coeffs[i])
					}
					i++
					j++
				}
			}
			if len(common.atoms) >= 1 {
				ra := tb.fromLin(linCombine(la, 1, common, mask(a.Sort)))
				rb := tb.fromLin(linCombine(lb, 1, common, mask(a.Sort)))
				return tb.Add(tb.fromLin(common), tb.Ite(c, ra, rb))
			}
		}
	}
	return tb.mk(&Term{Op: "ite", Sort: a.Sort, Args: []*Term{c, a, b}})
}

// mkIteRaw builds an ite without the difference normalisation (avoids re-entering it).
func (tb *TB) mkIteRaw(c, a, b *Term) *Term {
	if c.IsTrue() {
		return a
	}
	if c.IsFalse() {
		return b
	}
	if a == b {
		return a
	}
	if c.Op == "not" {
		return tb.mkIteRaw(c.Args[0], b, a)
	}
	return tb.mk(&Term{Op: "ite", Sort: a.Sort, Args: []*Term{c, a, b}})
}

func (tb *TB) Eq(a, b *Term) *Term {
	if a.Sort != b.Sort {
		panic(fmt.Sprintf("eq sort mismatch %d %d (%s, %s)", a.Sort, b.Sort, a.Op, b.Op))
	}
	if a == b {
		return tb.True
	}
	if a.IsConst() && b.IsConst() {
		if a.Sort == 0 {
			return tb.Bool(a.Op == b.Op)
		}
		return tb.Bool(a.Val == b.Val)
	}
	// reference ranges: a reference read from the entry state is below 2^59, the references
	// of objects allocated since are constants above it
	if a.Sort == 64 && len(tb.lowRef) > 0 {
		if b.IsConst() && b.Val >= 1<<59 && tb.isLow(a) || a.IsConst() && a.Val >= 1<<59 && tb.isLow(b) {
			return tb.False
		}
	}
	if a.Sort != 0 {
		la, lb := tb.lin(a), tb.lin(b)
		if len(la.atoms)+len(lb.atoms) > 0 && (len(la.atoms) > 1 || len(lb.atoms) > 1 || la.c != 0 && lb.c != 0 || len(la.atoms) == 1 && len(lb.atoms) == 1 && la.atoms[0] == lb.atoms[0]) {
			d := linCombine(la, 1, lb, mask(a.Sort))
			if len(d.atoms) == 0 {
				return tb.Bool(d.c == 0)
			}
			// split d = pos - neg with the constant on the right
			pos := &linForm{n: d.n}
			neg := &linForm{n: d.n, c: (-d.c) & mask(d.n)}
			for i, at := range d.atoms {
				if d.coeffs[i] > mask(d.n)>>1 { // "negative" coefficient
					neg.atoms = append(neg.atoms, at)
					neg.coeffs = append(neg.coeffs, (-d.coeffs[i])&mask(d.n))
				} else {
					pos.atoms = append(pos.atoms, at)
					pos.coeffs = append(pos.coeffs, d.coeffs[i])
				}
			}
			na, nb := tb.fromLin(pos), tb.fromLin(neg)
			if na != a || nb != b {
				if !(na == b && nb == a) {
					return tb.Eq(na, nb)
				}
			}
		}
		if b.IsConst() && isConstTree(a, 0) && a.Op == "ite" {
			return tb.mapTreeBool(a, func(x *Term) *Term { return tb.Bool(x.Val == b.Val) })
		}
		if a.IsConst() && isConstTree(b, 0) && b.Op == "ite" {
			return tb.mapTreeBool(b, func(x *Term) *Term { return tb.Bool(x.Val == a.Val) })
		}
	}
	if a.Sort == 0 {
		if a.IsTrue() {
			return b
		}
		if b.IsTrue() {
			return a
		}
		if a.IsFalse() {
			return tb.Not(b)
		}
		if b.IsFalse() {
			return tb.Not(a)
		}
	}
	// eq(ite(c,k1,k2), k) with constants
	if b.IsConst() && a.Op == "ite" && a.Args[1].IsConst() && a.Args[2].IsConst() {
		return tb.Ite(a.Args[0], tb.Eq(a.Args[1], b), tb.Eq(a.Args[2], b))
	}
	if a.IsConst() && b.Op == "ite" && b.Args[1].IsConst() && b.Args[2].IsConst() {
		return tb.Ite(b.Args[0], tb.Eq(b.Args[1], a), tb.Eq(b.Args[2], a))
	}
	if a.id > b.id {
		a, b = b, a
	}
	return tb.mk(&Term{Op: "=", Sort: 0, Args: []*Term{a, b}})
}

func (tb *TB) mapTreeBool(t *Term, f func(*Term) *Term) *Term {
	if t.Op == "const" {
		return f(t)
	}
	return tb.Ite(t.Args[0], tb.mapTreeBool(t.Args[1], f), tb.mapTreeBool(t.Args[2], f))
}

// splitAdd decomposes t as base + constant (base may be nil for a pure constant).
func splitAdd(t *Term) (*Term, uint64) {
	if t.Op == "const" {
		return nil, t.Val
	}
	if t.Op == "bvadd" && t.Args[1].Op == "const" {
		return t.Args[0], t.Args[1].Val
	}
	return t, 0
}

func (tb *TB) Ne(a, b *Term) *Term { return tb.Not(tb.Eq(a, b)) }

func sext64(v uint64, n int) int64 {
	if n >= 64 {
		return int64(v)
	}
	sh := uint(64 - n)
	return int64(v<<sh) >> sh
}

// Bin builds a binary bit-vector operation (result sort = operand sort).
func (tb *TB) Bin(op string, a, b *Term) *Term {
	if a.Sort != b.Sort || a.Sort == 0 {
		panic(fmt.Sprintf("bv op %s sort mismatch %d %d", op, a.Sort, b.Sort))
	}
	n := a.Sort
	if a.IsConst() && b.IsConst() {
		x, y := a.Val, b.Val
		var r uint64
		switch op {
		case "bvadd":
			r = x + y
		case "bvsub":
			r = x - y
		case "bvmul":
			r = x * y
		case "bvand":
			r = x & y
		case "bvor":
			r = x | y
		case "bvxor":
			r = x ^ y
		case "bvudiv":
			if y == 0 {
				r = mask(n)
			} else {
				r = x / y
			}
		case "bvurem":
			if y == 0 {
				r = x
			} else {
				r = x % y
			}
		case "bvsdiv":
			sx, sy := sext64(x, n), sext64(y, n)
			if sy == 0 {
				if sx >= 0 {
					r = mask(n)
				} else {
					r = 1
				}
			} else if sx == -1<<63 && sy == -1 {
				r = uint64(sx)
			} else {
				r = uint64(sx / sy)
			}
		case "bvsrem":
			sx, sy := sext64(x, n), sext64(y, n)
			if sy == 0 {
				r = x
			} else if sy == -1 {
				r = 0
			} else {
				r = uint64(sx % sy)
			}
		case "bvshl":
			if y >= uint64(n) {
				r = 0
			} else {
				r = x << y
			}
		case "bvlshr":
			if y >= uint64(n) {
				r = 0
			} else {
				r = x >> y
			}
		case "bvashr":
			sx := sext64(x, n)
			if y >= uint64(n) {
				if sx < 0 {
					r = mask(n)
				} else {
					r = 0
				}
			} else {
				r = uint64(sx >> y)
			}
		default:
			panic("unknown bv op " + op)
		}
		return tb.BV(n, r)
	}
	switch op {
	case "bvadd":
		return tb.fromLin(linCombine(tb.lin(a), 1, tb.lin(b), 1))
	case "bvsub":
		return tb.fromLin(linCombine(tb.lin(a), 1, tb.lin(b), mask(n)))
	case "bvmul":
		if a.IsConst() {
			return tb.fromLin(linCombine(tb.lin(b), a.Val, &linForm{n: n}, 0))
		}
		if b.IsConst() {
			return tb.fromLin(linCombine(tb.lin(a), b.Val, &linForm{n: n}, 0))
		}
	}
	zero := func(t *Term) bool { return t.IsConst() && t.Val == 0 }
	ones := func(t *Term) bool { return t.IsConst() && t.Val == mask(n) }
	switch op {
	case "bvadd":
		if zero(a) {
			return b
		}
		if zero(b) {
			return a
		}
		// (x + c1) + c2 -> x + (c1+c2)
		if b.IsConst() && a.Op == "bvadd" && a.Args[1].IsConst() {
			return tb.Bin("bvadd", a.Args[0], tb.BV(n, a.Args[1].Val+b.Val))
		}
		if a.IsConst() && !b.IsConst() {
			a, b = b, a
		}
	case "bvsub":
		if zero(b) {
			return a
		}
		if a == b {
			return tb.BV(n, 0)
		}
		if b.IsConst() {
			return tb.Bin("bvadd", a, tb.BV(n, -b.Val))
		}
		// (x + y) - x -> y ; (x + y) - y -> x
		if a.Op == "bvadd" {
			if a.Args[0] == b {
				return a.Args[1]
			}
			if a.Args[1] == b {
				return a.Args[0]
			}
		}
	case "bvmul":
		if zero(a) || zero(b) {
			return tb.BV(n, 0)
		}
		if a.IsConst() && a.Val == 1 {
			return b
		}
		if b.IsConst() && b.Val == 1 {
			return a
		}
	case "bvand":
		if zero(a) || zero(b) {
			return tb.BV(n, 0)
		}
		if ones(a) {
			return b
		}
		if ones(b) {
			return a
		}
		if a == b {
			return a
		}
	case "bvor":
		if zero(a) {
			return b
		}
		if zero(b) {
			return a
		}
		if a == b {
			return a
		}
	case "bvxor":
		if zero(a) {
			return b
		}
		if zero(b) {
			return a
		}
		if a == b {
			return tb.BV(n, 0)
		}
	case "bvshl", "bvlshr", "bvashr":
		if zero(b) {
			return a
		}
		if zero(a) {
			return a
		}
	}
	return tb.mk(&Term{Op: op, Sort: n, Args: []*Term{a, b}})
}

func (tb *TB) Add(a, b *Term) *Term { return tb.Bin("bvadd", a, b) }
func (tb *TB) Sub(a, b *Term) *Term { return tb.Bin("bvsub", a, b) }

// ---- canonical linear arithmetic: every bvadd/bvsub/bvneg/const-bvmul term is kept as
// sum(coeff_i * atom_i) + const with atoms ordered by id, so that equal address
// computations are the same term and differences of addresses fold to constants.

type linForm struct {
	atoms  []*Term
	coeffs []uint64
	c      uint64
	n      int
}

func (tb *TB) lin(t *Term) *linForm {
	if l, ok := tb.linc[t.id]; ok {
		return l
	}
	if t.Op == "const" {
		return &linForm{c: t.Val, n: t.Sort}
	}
	return &linForm{atoms: []*Term{t}, coeffs: []uint64{1}, n: t.Sort}
}

func linCombine(a *linForm, ka uint64, b *linForm, kb uint64) *linForm {
	n := a.n
	m := mask(n)
	r := &linForm{n: n, c: (a.c*ka + b.c*kb) & m}
	i, j := 0, 0
	for i < len(a.atoms) || j < len(b.atoms) {
		switch {
		case j >= len(b.atoms) || i < len(a.atoms) && a.atoms[i].id < b.atoms[j].id:
			if k := (a.coeffs[i] * ka) & m; k != 0 {
				r.atoms = append(r.atoms, a.atoms[i])
				r.coeffs = append(r.coeffs, k)
			}
			i++
		case i >= len(a.atoms) || b.atoms[j].id < a.atoms[i].id:
			if k := (b.coeffs[j] * kb) & m; k != 0 {
				r.atoms = append(r.atoms, b.atoms[j])
				r.coeffs = append(r.coeffs, k)
			}
			j++
		default:
			if k := (a.coeffs[i]*ka + b.coeffs[j]*kb) & m; k != 0 {
				r.atoms = append(r.atoms, a.atoms[i])
				r.coeffs = append(r.coeffs, k)
			}
			i++
			j++
		}
	}
	return r
}

func (tb *TB) fromLin(l *linForm) *Term {
	n := l.n
	if len(l.atoms) == 0 {
		return tb.BV(n, l.c)
	}
	// a single constant-leaf ite tree plus a constant: fold the constant into the leaves
	if len(l.atoms) == 1 && l.coeffs[0] == 1 && l.c != 0 && isConstTree(l.atoms[0], 0) {
		c := l.c
		return tb.mapTree(l.atoms[0], func(x *Term) *Term { return tb.BV(n, x.Val+c) })
	}
	var r *Term
	for i, a := range l.atoms {
		var t *Term
		switch {
		case l.coeffs[i] == 1:
			t = a
		case l.coeffs[i] == mask(n):
			t = tb.mk(&Term{Op: "bvneg", Sort: n, Args: []*Term{a}})
		default:
			t = tb.mk(&Term{Op: "bvmul", Sort: n, Args: []*Term{tb.BV(n, l.coeffs[i]), a}})
		}
		if r == nil {
			r = t
		} else {
			r = tb.mk(&Term{Op: "bvadd", Sort: n, Args: []*Term{r, t}})
		}
	}
	if l.c != 0 {
		r = tb.mk(&Term{Op: "bvadd", Sort: n, Args: []*Term{r, tb.BV(n, l.c)}})
	}
	if len(l.atoms) > 1 || l.c != 0 || l.coeffs[0] != 1 {
		tb.linc[r.id] = l
	}
	return r
}

func isConstTree(t *Term, depth int) bool {
	if t.Op == "const" {
		return true
	}
	if t.Op == "ite" && depth < 16 {
		return isConstTree(t.Args[1], depth+1) && isConstTree(t.Args[2], depth+1)
	}
	return false
}

// mapTree applies f to the constant leaves of an ite tree.
func (tb *TB) mapTree(t *Term, f func(*Term) *Term) *Term {
	if t.Op == "const" {
		return f(t)
	}
	return tb.Ite(t.Args[0], tb.mapTree(t.Args[1], f), tb.mapTree(t.Args[2], f))
}

// Cmp builds a bit-vector comparison: bvult bvule bvslt bvsle (and the g* forms).
func (tb *TB) Cmp(op string, a, b *Term) *Term {
	switch op {
	case "bvugt":
		return tb.Cmp("bvult", b, a)
	case "bvuge":
		return tb.Cmp("bvule", b, a)
	case "bvsgt":
		return tb.Cmp("bvslt", b, a)
	case "bvsge":
		return tb.Cmp("bvsle", b, a)
	}
	if a.Sort != b.Sort || a.Sort == 0 {
		panic(fmt.Sprintf("cmp %s sort mismatch %d %d", op, a.Sort, b.Sort))
	}
	n := a.Sort
	if a.IsConst() && b.IsConst() {
		switch op {
		case "bvult":
			return tb.Bool(a.Val < b.Val)
		case "bvule":
			return tb.Bool(a.Val <= b.Val)
		case "bvslt":
			return tb.Bool(sext64(a.Val, n) < sext64(b.Val, n))
		case "bvsle":
			return tb.Bool(sext64(a.Val, n) <= sext64(b.Val, n))
		}
	}
	if a == b {
		return tb.Bool(op == "bvule" || op == "bvsle")
	}
	switch op {
	case "bvult":
		if b.IsConst() && b.Val == 0 {
			return tb.False
		}
	case "bvule":
		if a.IsConst() && a.Val == 0 {
			return tb.True
		}
		if b.IsConst() && b.Val == mask(n) {
			return tb.True
		}
	}
	// compare of a constant-leaf ite tree against a constant: push down
	if b.IsConst() && a.Op == "ite" && isConstTree(a, 0) {
		return tb.mapTreeBool(a, func(x *Term) *Term { return tb.Cmp(op, x, b) })
	}
	if a.IsConst() && b.Op == "ite" && isConstTree(b, 0) {
		return tb.mapTreeBool(b, func(x *Term) *Term { return tb.Cmp(op, a, x) })
	}
	return tb.mk(&Term{Op: op, Sort: 0, Args: []*Term{a, b}})
}

func (tb *TB) BVNot(a *Term) *Term {
	if a.IsConst() {
		return tb.BV(a.Sort, ^a.Val)
	}
	if a.Op == "bvnot" {
		return a.Args[0]
	}
	return tb.mk(&Term{Op: "bvnot", Sort: a.Sort, Args: []*Term{a}})
}

func (tb *TB) Neg(a *Term) *Term {
	if a.IsConst() {
		return tb.BV(a.Sort, -a.Val)
	}
	return tb.fromLin(linCombine(tb.lin(a), mask(a.Sort), &linForm{n: a.Sort}, 0))
}

func (tb *TB) Extract(hi, lo int, a *Term) *Term {
	if lo == 0 && hi == a.Sort-1 {
		return a
	}
	if a.IsConst() {
		return tb.BV(hi-lo+1, a.Val>>uint(lo))
	}
	// extract of zero/sign extension that stays inside the original
	if (a.Op == "zext" || a.Op == "sext") && hi < a.Args[0].Sort {
		return tb.Extract(hi, lo, a.Args[0])
	}
	if a.Op == "ite" && a.Args[1].IsConst() && a.Args[2].IsConst() {
		return tb.Ite(a.Args[0], tb.Extract(hi, lo, a.Args[1]), tb.Extract(hi, lo, a.Args[2]))
	}
	return tb.mk(&Term{Op: "extract", Sort: hi - lo + 1, Args: []*Term{a}, P1: hi, P2: lo})
}

func (tb *TB) ZExt(to int, a *Term) *Term {
	if to == a.Sort {
		return a
	}
	if to < a.Sort {
		return tb.Extract(to-1, 0, a)
	}
	if a.IsConst() {
		return tb.BV(to, a.Val)
	}
	if a.Op == "zext" {
		return tb.ZExt(to, a.Args[0])
	}
	if a.Op == "ite" && a.Args[1].IsConst() && a.Args[2].IsConst() {
		return tb.Ite(a.Args[0], tb.ZExt(to, a.Args[1]), tb.ZExt(to, a.Args[2]))
	}
	return tb.mk(&Term{Op: "zext", Sort: to, Args: []*Term{a}, P1: to - a.Sort})
}

func (tb *TB) SExt(to int, a *Term) *Term {
	if to == a.Sort {
		return a
	}
	if to < a.Sort {
		return tb.Extract(to-1, 0, a)
	}
	if a.IsConst() {
		return tb.BV(to, uint64(sext64(a.Val, a.Sort)))
	}
	if a.Op == "ite" && a.Args[1].IsConst() && a.Args[2].IsConst() {
		return tb.Ite(a.Args[0], tb.SExt(to, a.Args[1]), tb.SExt(to, a.Args[2]))
	}
	return tb.mk(&Term{Op: "sext", Sort: to, Args: []*Term{a}, P1: to - a.Sort})
}

// Len64 builds bits.Len64(x) as a 64-bit value (an ite chain).
func (tb *TB) Len64(x *Term) *Term {
	if x.IsConst() {
		return tb.BV(64, uint64(bits.Len64(x.Val)))
	}
	r := tb.BV(64, 0)
	for k := 1; k <= 64; k++ {
		// len >= k iff x >= 2^(k-1)
		r = tb.Ite(tb.Cmp("bvuge", x, tb.BV(64, uint64(1)<<uint(k-1))), tb.BV(64, uint64(k)), r)
	}
	return r
}

func sortStr(s int) string {
	if s == 0 {
		return "Bool"
	}
	return fmt.Sprintf("(_ BitVec %d)", s)
}

func constStr(t *Term) string {
	switch t.Op {
	case "true", "false":
		return t.Op
	}
	if t.Sort%4 == 0 {
		return fmt.Sprintf("#x%0*x", t.Sort/4, t.Val)
	}
	return fmt.Sprintf("#b%0*b", t.Sort, t.Val)
}

func smtName(s string) string {
	ok := true
	for _, c := range s {
		if !(c >= 'a' && c <= 'z' || c >= 'A' && c <= 'Z' || c >= '0' && c <= '9' || c == '_' || c == '.' || c == '$' || c == '!') {
			ok = false
		}
	}
	if ok {
		return s
	}
	return "|" + strings.ReplaceAll(s, "|", "_") + "|"
}

// Script renders an SMT-LIB2 script asserting every term in asserts, with
// (get-value) on the listed query terms after check-sat.
type Script struct {
	tb      *TB
	sb      strings.Builder
	defined map[int]string
	declV   map[string]bool
	declF   map[string]bool
	decls   strings.Builder
	body    strings.Builder
	uses    map[int]int
}

func (tb *TB) NewScript() *Script {
	return &Script{tb: tb, defined: map[int]string{}, declV: map[string]bool{}, declF: map[string]bool{}, uses: map[int]int{}}
}

func (s *Script) ref(t *Term) string {
	if n, ok := s.defined[t.id]; ok {
		return n
	}
	switch t.Op {
	case "const", "true", "false":
		return constStr(t)
	case "var":
		if !s.declV[t.Name] {
			s.declV[t.Name] = true
			fmt.Fprintf(&s.decls, "(declare-fun %s () %s)\n", smtName(t.Name), sortStr(t.Sort))
		}
		return smtName(t.Name)
	}
	// iterative post-order to avoid deep recursion
	type frame struct {
		t *Term
		i int
	}
	stack := []frame{{t, 0}}
	for len(stack) > 0 {
		f := &stack[len(stack)-1]
		if _, ok := s.defined[f.t.id]; ok {
			stack = stack[:len(stack)-1]
			continue
		}
		if f.i < len(f.t.Args) {
			a := f.t.Args[f.i]
			f.i++
			if _, ok := s.defined[a.id]; !ok && len(a.Args) > 0 {
				stack = append(stack, frame{a, 0})
			}
			continue
		}
		s.define(f.t)
		stack = stack[:len(stack)-1]
	}
	return s.defined[t.id]
}

func (s *Script) leaf(t *Term) string {
	if n, ok := s.defined[t.id]; ok {
		return n
	}
	return s.ref(t)
}

func (s *Script) define(t *Term) {
	var e strings.Builder
	args := make([]string, len(t.Args))
	for i, a := range t.Args {
		args[i] = s.leaf(a)
	}
	switch t.Op {
	case "uf":
		if !s.declF[t.Name] {
			s.declF[t.Name] = true
			d := s.tb.ufs[t.Name]
			var as []string
			for _, x := range d.args {
				as = append(as, sortStr(x))
			}
			fmt.Fprintf(&s.decls, "(declare-fun %s (%s) %s)\n", smtName(t.Name), strings.Join(as, " "), sortStr(d.ret))
		}
		fmt.Fprintf(&e, "(%s %s)", smtName(t.Name), strings.Join(args, " "))
	case "extract":
		fmt.Fprintf(&e, "((_ extract %d %d) %s)", t.P1, t.P2, args[0])
	case "zext":
		fmt.Fprintf(&e, "((_ zero_extend %d) %s)", t.P1, args[0])
	case "sext":
		fmt.Fprintf(&e, "((_ sign_extend %d) %s)", t.P1, args[0])
	default:
		fmt.Fprintf(&e, "(%s %s)", t.Op, strings.Join(args, " "))
	}
	name := fmt.Sprintf("t%d", t.id)
	fmt.Fprintf(&s.body, "(define-fun %s () %s %s)\n", name, sortStr(t.Sort), e.String())
	s.defined[t.id] = name
}

func (s *Script) Assert(t *Term) {
	r := s.ref(t)
	fmt.Fprintf(&s.body, "(assert %s)\n", r)
}

// Named returns the SMT expression text for t (defining what it needs).
func (s *Script) Named(t *Term) string { return s.ref(t) }

func (s *Script) String(logic string, tail string) string {
	var out strings.Builder
	out.WriteString("(set-option :produce-models true)\n")
	if logic != "" {
		fmt.Fprintf(&out, "(set-logic %s)\n", logic)
	}
	out.WriteString(s.decls.String())
	out.WriteString(s.body.String())
	out.WriteString(tail)
	return out.String()
}

// Pretty prints a term as a nested s-expression (for evidence samples; bounded).
func (t *Term) Pretty(max int) string {
	var sb strings.Builder
	var rec func(t *Term, depth int)
	rec = func(t *Term, depth int) {
		if sb.Len() > max {
			return
		}
		switch t.Op {
		case "const", "true", "false":
			sb.WriteString(constStr(t))
			return
		case "var":
			sb.WriteString(t.Name)
			return
		}
		sb.WriteByte('(')
		if t.Op == "uf" {
			sb.WriteString(t.Name)
		} else {
			sb.WriteString(t.Op)
		}
		for _, a := range t.Args {
			sb.WriteByte(' ')
			if depth > 12 {
				sb.WriteString("..")
			} else {
				rec(a, depth+1)
			}
		}
		sb.WriteByte(')')
	}
	rec(t, 0)
	r := sb.String()
	if len(r) > max {
		r = r[:max] + "…"
	}
	return r
}

// Vars collects the variable names and uf applications reachable from ts.
func collectLeaves(ts []*Term) (vars []*Term, apps []*Term) {
	seen := map[int]bool{}
	var st []*Term
	st = append(st, ts...)
	for len(st) > 0 {
		t := st[len(st)-1]
		st = st[:len(st)-1]
		if seen[t.id] {
			continue
		}
		seen[t.id] = true
		switch t.Op {
		case "var":
			vars = append(vars, t)
		case "uf":
			apps = append(apps, t)
		}
		st = append(st, t.Args...)
	}
	sort.Slice(vars, func(i, j int) bool { return vars[i].Name < vars[j].Name })
	sort.Slice(apps, func(i, j int) bool { return apps[i].id < apps[j].id })
	return
}

// Rebuild re-creates a node with new arguments through the simplifying constructors.
func (tb *TB) Rebuild(t *Term, args []*Term) *Term {
	switch t.Op {
	case "true", "false", "const", "var":
		return t
	case "uf":
		return tb.App(t.Name, t.Sort, args...)
	case "not":
		return tb.Not(args[0])
	case "and":
		return tb.And(args...)
	case "or":
		return tb.Or(args...)
	case "ite":
		return tb.Ite(args[0], args[1], args[2])
	case "=":
		return tb.Eq(args[0], args[1])
	case "bvult", "bvule", "bvslt", "bvsle":
		return tb.Cmp(t.Op, args[0], args[1])
	case "bvnot":
		return tb.BVNot(args[0])
	case "bvneg":
		return tb.Neg(args[0])
	case "extract":
		return tb.Extract(t.P1, t.P2, args[0])
	case "zext":
		return tb.ZExt(t.Sort, args[0])
	case "sext":
		return tb.SExt(t.Sort, args[0])
	case "bvadd", "bvsub", "bvmul", "bvand", "bvor", "bvxor", "bvudiv", "bvurem", "bvsdiv", "bvsrem", "bvshl", "bvlshr", "bvashr":
		return tb.Bin(t.Op, args[0], args[1])
	}
	panic("Rebuild: unknown op " + t.Op)
}

// RewriteUnder replaces every occurrence of a literal known to be true (ids in lits map to
// true, ids in nlits to false) and re-simplifies bottom-up.
func (tb *TB) RewriteUnder(root *Term, lits, nlits map[int]bool, memo map[int]*Term) *Term {
	type frame struct {
		t *Term
		i int
	}
	stack := []frame{{root, 0}}
	for len(stack) > 0 {
		f := &stack[len(stack)-1]
		if _, ok := memo[f.t.id]; ok {
			stack = stack[:len(stack)-1]
			continue
		}
		if f.t.Sort == 0 {
			if lits[f.t.id] {
				memo[f.t.id] = tb.True
				stack = stack[:len(stack)-1]
				continue
			}
			if nlits[f.t.id] {
				memo[f.t.id] = tb.False
				stack = stack[:len(stack)-1]
				continue
			}
		}
		if f.i < len(f.t.Args) {
			a := f.t.Args[f.i]
			f.i++
			if _, ok := memo[a.id]; !ok {
				stack = append(stack, frame{a, 0})
			}
			continue
		}
		t := f.t
		if len(t.Args) == 0 {
			memo[t.id] = t
		} else {
			args := make([]*Term, len(t.Args))
			changed := false
			for i, a := range t.Args {
				args[i] = memo[a.id]
				if args[i] != a {
					changed = true
				}
			}
			if changed {
				memo[t.id] = tb.Rebuild(t, args)
			} else {
				memo[t.id] = t
			}
		}
		stack = stack[:len(stack)-1]
	}
	return memo[root.id]
}

// isLow: t is known to denote a reference of the entry state (at most top0 < 2^59): a small
// constant, a term marked by the executor (entry parameters, reads of entry heaps), or an
// ite of such.
func (tb *TB) isLow(t *Term) bool {
	for d := 0; d < 64; d++ {
		if t.IsConst() {
			return t.Val < 1<<59
		}
		if tb.lowRef[t.id] {
			return true
		}
		if t.Op != "ite" {
			return false
		}
		if !tb.isLow(t.Args[1]) {
			return false
		}
		t = t.Args[2]
	}
	return false
}

// MarkLow records that t denotes an entry-state reference.
func (tb *TB) MarkLow(t *Term) {
	if tb.lowRef == nil {
		tb.lowRef = map[int]bool{}
	}
	tb.lowRef[t.id] = true
}
