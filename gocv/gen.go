package main

// Generated code (C04-C10, C17): the fast-marshal code of the repository's example schemas
// is REGENERATED on every run from the plug-in built out of the working tree (templates
// included), without protoc: tools/genfm feeds the descriptors embedded in the checked-in
// *.pb.go files to the plug-in.  The result is loaded, together with those *.pb.go files,
// as overlay-only packages of the repository module, and per-type harnesses are generated
// from the Go declarations found there.

import (
	"fmt"
	"go/ast"
	"go/parser"
	"go/token"
	"os"
	"os/exec"
	"path/filepath"
	"sort"
	"strings"
)

type genType struct {
	Name      string
	Cache     string   // size-cache field
	Slices    []string // repeated fields (slice-typed, not []byte)
	Maps      []string
	Unknown   string // unknown-field storage field ("" if none)
	Bytes     []string
	Strings   []string
	Fields    []string // every schema field (Go field names), in declaration order
	Oneofs    map[string]bool
	HasUnmarshal bool
}

// prepareGenerated builds the plug-in and genfm from repo and regenerates all families into
// a scratch directory (returned).  Called at most once per process.
func prepareGenerated(repo, verifRoot, tmp string) (string, error) {
	env := append(os.Environ(), "GOFLAGS=-mod=mod", "GOPROXY=off", "GOSUMDB=off", "GOTOOLCHAIN=local")
	plugin := filepath.Join(tmp, "protoc-gen-fastmarshal")
	cmd := exec.Command("go", "build", "-o", plugin, ".")
	cmd.Dir = filepath.Join(repo, "cmd", "protoc-gen-fastmarshal")
	cmd.Env = env
	if out, err := cmd.CombinedOutput(); err != nil {
		return "", fmt.Errorf("building the plug-in: %v\n%s", err, out)
	}
	gdir := filepath.Join(tmp, "genfm")
	os.MkdirAll(gdir, 0o755)
	src, err := os.ReadFile(filepath.Join(verifRoot, "tools", "genfm", "main.go"))
	if err != nil {
		return "", err
	}
	os.WriteFile(filepath.Join(gdir, "main.go"), src, 0o644)
	mod := fmt.Sprintf("module genfm\n\ngo 1.21\n\nrequire (\n\tgithub.com/CrowdStrike/csproto v0.0.0\n\tgithub.com/CrowdStrike/csproto/example v0.0.0\n\tgithub.com/gogo/protobuf v1.3.2\n\tgoogle.golang.org/protobuf v1.36.4\n)\n\nreplace github.com/CrowdStrike/csproto => %s\n\nreplace github.com/CrowdStrike/csproto/example => %s\n", repo, filepath.Join(repo, "example"))
	os.WriteFile(filepath.Join(gdir, "go.mod"), []byte(mod), 0o644)
	if sum, err := os.ReadFile(filepath.Join(repo, "example", "go.sum")); err == nil {
		os.WriteFile(filepath.Join(gdir, "go.sum"), sum, 0o644)
	}
	gbin := filepath.Join(tmp, "genfm.bin")
	cmd = exec.Command("go", "build", "-o", gbin, ".")
	cmd.Dir = gdir
	cmd.Env = env
	if out, err := cmd.CombinedOutput(); err != nil {
		return "", fmt.Errorf("building genfm: %v\n%s", err, out)
	}
	outdir := filepath.Join(tmp, "generated")
	cmd = exec.Command(gbin, plugin, outdir)
	cmd.Env = env
	if out, err := cmd.CombinedOutput(); err != nil {
		return "", fmt.Errorf("running the plug-in: %v\n%s", err, out)
	}
	return outdir, nil
}

// genPackageFiles assembles the overlay-only package for one family.
func genPackageFiles(repo, outdir, family string) (map[string][]byte, error) {
	files := map[string][]byte{}
	ex := filepath.Join(repo, "example", family)
	ents, err := os.ReadDir(ex)
	if err != nil {
		return nil, err
	}
	for _, e := range ents {
		n := e.Name()
		if strings.HasSuffix(n, ".pb.go") {
			b, err := os.ReadFile(filepath.Join(ex, n))
			if err != nil {
				return nil, err
			}
			files[n] = b
		}
	}
	gens, _ := filepath.Glob(filepath.Join(outdir, family, "*.pb.fm.go"))
	if len(gens) == 0 {
		return nil, fmt.Errorf("no regenerated files for %s", family)
	}
	sort.Strings(gens)
	for _, g := range gens {
		b, err := os.ReadFile(g)
		if err != nil {
			return nil, err
		}
		files[filepath.Base(g)] = b
	}
	return files, nil
}

// scanGenTypes finds the message types with fast-marshal methods and their field shapes.
func scanGenTypes(files map[string][]byte) (string, []*genType, error) {
	fset := token.NewFileSet()
	pkgName := ""
	has := map[string]map[string]bool{}
	structs := map[string]*ast.StructType{}
	var names []string
	for n := range files {
		names = append(names, n)
	}
	sort.Strings(names)
	for _, n := range names {
		f, err := parser.ParseFile(fset, n, files[n], 0)
		if err != nil {
			return "", nil, err
		}
		pkgName = f.Name.Name
		for _, d := range f.Decls {
			switch v := d.(type) {
			case *ast.FuncDecl:
				if v.Recv == nil || len(v.Recv.List) != 1 || !strings.HasSuffix(n, ".pb.fm.go") {
					continue
				}
				if st, ok := v.Recv.List[0].Type.(*ast.StarExpr); ok {
					if id, ok := st.X.(*ast.Ident); ok {
						if has[id.Name] == nil {
							has[id.Name] = map[string]bool{}
						}
						has[id.Name][v.Name.Name] = true
					}
				}
			case *ast.GenDecl:
				for _, s := range v.Specs {
					if ts, ok := s.(*ast.TypeSpec); ok {
						if st, ok := ts.Type.(*ast.StructType); ok {
							structs[ts.Name.Name] = st
						}
					}
				}
			}
		}
	}
	var out []*genType
	var tnames []string
	for t := range has {
		tnames = append(tnames, t)
	}
	sort.Strings(tnames)
	for _, t := range tnames {
		if !has[t]["Size"] || !has[t]["MarshalTo"] {
			continue
		}
		st := structs[t]
		if st == nil {
			continue
		}
		g := &genType{Name: t, HasUnmarshal: has[t]["Unmarshal"]}
		for _, f := range st.Fields.List {
			for _, fn := range f.Names {
				switch fn.Name {
				case "sizeCache", "XXX_sizecache":
					g.Cache = fn.Name
					continue
				case "unknownFields", "XXX_unrecognized":
					g.Unknown = fn.Name
					continue
				case "state", "XXX_NoUnkeyedLiteral", "XXX_InternalExtensions", "extensionFields":
					continue
				}
				g.Fields = append(g.Fields, fn.Name)
				switch ft := f.Type.(type) {
				case *ast.ArrayType:
					if id, ok := ft.Elt.(*ast.Ident); ok && (id.Name == "byte" || id.Name == "uint8") {
						g.Bytes = append(g.Bytes, fn.Name)
					} else {
						g.Slices = append(g.Slices, fn.Name)
					}
				case *ast.MapType:
					g.Maps = append(g.Maps, fn.Name)
				case *ast.Ident:
					if ft.Name == "string" {
						g.Strings = append(g.Strings, fn.Name)
					}
				}
			}
		}
		out = append(out, g)
	}
	return pkgName, out, nil
}

// genHarnesses renders the harness source and contract directives: one C04 harness per
// (message type, field) - every other field holds its zero value, the field under test an
// arbitrary value copied from an arbitrary second message - plus one whole-message harness
// for small types.
func genHarnesses(pkgName string, types []*genType, listBound int) (string, string) {
	var h, c strings.Builder
	fmt.Fprintf(&h, "package %s\n\n// Code generated by gocv (gen.go) from the declarations of this package.  The generated\n// methods themselves are executed (inlined, loops unrolled); their callees in package\n// csproto are replaced by contracts.\n\nimport \"github.com/CrowdStrike/csproto\"\n\nvar _ = csproto.SizeOfVarint\n\n// gocv_lastEncoder: the encoder most recently created (verifier intrinsic; nil natively).\nfunc gocv_lastEncoder() *csproto.Encoder { return nil }\n", pkgName)
	isIn := func(l []string, n string) bool {
		for _, x := range l {
			if x == n {
				return true
			}
		}
		return false
	}
	for _, t := range types {
		for _, f := range t.Fields {
			bound := ""
			switch {
			case isIn(t.Slices, f):
				bound = fmt.Sprintf("\tgocv_assume(len(m.%s) <= %d)\n", f, listBound)
			case isIn(t.Maps, f):
				bound = fmt.Sprintf("\tgocv_assume(len(m.%s) == 0)\n", f)
			}
			fmt.Fprintf(&h, `
func lemma_c04_%[1]s_%[2]s(m *%[1]s, src *%[1]s) {
	gocv_assume(m != nil && src != nil && m != src)
	var z %[1]s
	*m = z
	m.%[2]s = src.%[2]s
%[3]s	gocv_assume(gocv_wellFormed(m.%[2]s))
	sz := m.Size()
	gocv_assume(sz <= 1<<31-1) // protobuf: a message is at most 2 GiB (the size cache is an int32)
	buf := make([]byte, sz)
	err := m.MarshalTo(buf)
	if err == nil && sz > 0 {
		gocv_assert(csproto.GocvEncoderOffset(gocv_lastEncoder()) == len(buf), "filled-exactly")
	}
	b, err2 := m.Marshal()
	if err2 == nil {
		gocv_assert(len(b) == sz, "marshal-length-is-size")
	}
}
`, t.Name, f, bound)
			fmt.Fprintf(&c, "\n//@ func lemma_c04_%s_%s(m *%s, src *%s)\n//@   harness\n//@   inlines Size, MarshalTo, Marshal\n//@   bounded %d field %s alone (every other field zero); repeated fields with at most %d elements, maps empty\n", t.Name, f, t.Name, t.Name, listBound+1, f, listBound)
		}
	}
	return h.String(), c.String()
}
var listBoundDefault = 1
