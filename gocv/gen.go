package main

// Generated code (C04-C10, C17): the fast-marshal code of the repository's example schemas
// is REGENERATED on every run from the plug-in built out of the working tree (templates
// included), without protoc: tools/genfm feeds the descriptors embedded in the checked-in
// *.pb.go files to the plug-in.  The result is loaded, together with those *.pb.go files,
// as overlay-only packages of the repository module, and per-type harnesses are generated
// from the Go declarations found there.

import (
	"fmt"
	"go/ast"
	"go/parser"
	"go/token"
	"os"
	"os/exec"
	"path/filepath"
	"sort"
	"strings"
)

type genType struct {
	Name      string
	Cache     string   // size-cache field
	Slices    []string // repeated fields (slice-typed, not []byte)
	Maps      []string
	Unknown   string // unknown-field storage field ("" if none)
	Bytes     []string
	Strings   []string
	Fields    []string // every schema field (Go field names), in declaration order
	Oneofs    map[string]bool
	Required  []string // proto2 required fields (struct tag "...,req,...")
	ReqMsg    map[string]bool // required fields of message type
	Zero      map[string]string // Go zero literal per schema field
	RepNum    map[string][2]string // repeated numeric fields: wire kind from the struct tag (varint, zigzag32, zigzag64, fixed32, fixed64) and field number
	IsIface   map[string]bool   // oneof fields (interface typed)
	MapOfMsg  map[string]bool   // maps whose values are messages (pointers)
	SetCond   map[string]string // Go condition "field %s holds a set value" (presence as the reference runtime sees it)
	RepBytes  []string          // repeated bytes fields
	StrPtrs   []string          // optional string fields held by pointer (proto2 / proto3 optional)
	Tags      []string // field numbers the generated Unmarshal dispatches on (schema fields, oneof members, extensions)
	MsgExts   []string // extension descriptors whose value Size() passes to csproto.Size (message-typed extensions)
	HasUnmarshal bool
	MapNum    map[string]string    // map fields: field number
	SingNum   map[string][3]string // singular integer/bool/enum fields: wire kind, field number, "ptr" or "val"
}

// prepareGenerated builds the plug-in and genfm from repo and regenerates all families into
// a scratch directory (returned).  Called at most once per process.
func prepareGenerated(repo, verifRoot, tmp string) (string, error) {
	env := append(os.Environ(), "GOFLAGS=-mod=mod", "GOPROXY=off", "GOSUMDB=off", "GOTOOLCHAIN=local")
	plugin := filepath.Join(tmp, "protoc-gen-fastmarshal")
	cmd := exec.Command("go", "build", "-o", plugin, ".")
	cmd.Dir = filepath.Join(repo, "cmd", "protoc-gen-fastmarshal")
	cmd.Env = env
	if out, err := cmd.CombinedOutput(); err != nil {
		return "", fmt.Errorf("building the plug-in: %v\n%s", err, out)
	}
	gdir := filepath.Join(tmp, "genfm")
	os.MkdirAll(gdir, 0o755)
	src, err := os.ReadFile(filepath.Join(verifRoot, "tools", "genfm", "main.go"))
	if err != nil {
		return "", err
	}
	os.WriteFile(filepath.Join(gdir, "main.go"), src, 0o644)
	mod := fmt.Sprintf("module genfm\n\ngo 1.21\n\nrequire (\n\tgithub.com/CrowdStrike/csproto v0.0.0\n\tgithub.com/CrowdStrike/csproto/example v0.0.0\n\tgithub.com/gogo/protobuf v1.3.2\n\tgoogle.golang.org/protobuf v1.36.4\n)\n\nreplace github.com/CrowdStrike/csproto => %s\n\nreplace github.com/CrowdStrike/csproto/example => %s\n", repo, filepath.Join(repo, "example"))
	os.WriteFile(filepath.Join(gdir, "go.mod"), []byte(mod), 0o644)
	if sum, err := os.ReadFile(filepath.Join(repo, "example", "go.sum")); err == nil {
		os.WriteFile(filepath.Join(gdir, "go.sum"), sum, 0o644)
	}
	gbin := filepath.Join(tmp, "genfm.bin")
	cmd = exec.Command("go", "build", "-o", gbin, ".")
	cmd.Dir = gdir
	cmd.Env = env
	if out, err := cmd.CombinedOutput(); err != nil {
		return "", fmt.Errorf("building genfm: %v\n%s", err, out)
	}
	outdir := filepath.Join(tmp, "generated")
	cmd = exec.Command(gbin, plugin, outdir)
	cmd.Env = env
	if out, err := cmd.CombinedOutput(); err != nil {
		return "", fmt.Errorf("running the plug-in: %v\n%s", err, out)
	}
	return outdir, nil
}

// genPackageFiles assembles the overlay-only package for one family.
func genPackageFiles(repo, outdir, family string) (map[string][]byte, error) {
	files := map[string][]byte{}
	ex := filepath.Join(repo, "example", family)
	ents, err := os.ReadDir(ex)
	if err != nil {
		return nil, err
	}
	for _, e := range ents {
		n := e.Name()
		if strings.HasSuffix(n, ".pb.go") {
			b, err := os.ReadFile(filepath.Join(ex, n))
			if err != nil {
				return nil, err
			}
			files[n] = b
		}
	}
	gens, _ := filepath.Glob(filepath.Join(outdir, family, "*.pb.fm.go"))
	if len(gens) == 0 {
		return nil, fmt.Errorf("no regenerated files for %s", family)
	}
	sort.Strings(gens)
	for _, g := range gens {
		b, err := os.ReadFile(g)
		if err != nil {
			return nil, err
		}
		files[filepath.Base(g)] = b
	}
	return files, nil
}

// scanGenTypes finds the message types with fast-marshal methods and their field shapes.
func scanGenTypes(files map[string][]byte) (string, []*genType, error) {
	fset := token.NewFileSet()
	pkgName := ""
	has := map[string]map[string]bool{}
	structs := map[string]*ast.StructType{}
	exts := map[string][]string{}
	tags := map[string][]string{}
	var names []string
	for n := range files {
		names = append(names, n)
	}
	sort.Strings(names)
	for _, n := range names {
		f, err := parser.ParseFile(fset, n, files[n], 0)
		if err != nil {
			return "", nil, err
		}
		pkgName = f.Name.Name
		for _, d := range f.Decls {
			switch v := d.(type) {
			case *ast.FuncDecl:
				if v.Recv == nil || len(v.Recv.List) != 1 || !strings.HasSuffix(n, ".pb.fm.go") {
					continue
				}
				if st, ok := v.Recv.List[0].Type.(*ast.StarExpr); ok {
					if id, ok := st.X.(*ast.Ident); ok {
						if has[id.Name] == nil {
							has[id.Name] = map[string]bool{}
						}
						has[id.Name][v.Name.Name] = true
						if v.Name.Name == "Size" && v.Body != nil {
							exts[id.Name] = msgExtsOf(v.Body)
						}
						if v.Name.Name == "Unmarshal" && v.Body != nil {
							tags[id.Name] = switchTagsOf(v.Body)
						}
					}
				}
			case *ast.GenDecl:
				for _, s := range v.Specs {
					if ts, ok := s.(*ast.TypeSpec); ok {
						if st, ok := ts.Type.(*ast.StructType); ok {
							structs[ts.Name.Name] = st
						}
					}
				}
			}
		}
	}
	var out []*genType
	var tnames []string
	for t := range has {
		tnames = append(tnames, t)
	}
	sort.Strings(tnames)
	for _, t := range tnames {
		if !has[t]["Size"] || !has[t]["MarshalTo"] {
			continue
		}
		st := structs[t]
		if st == nil {
			continue
		}
		g := &genType{Name: t, HasUnmarshal: has[t]["Unmarshal"], MsgExts: exts[t], Tags: tags[t]}
		for _, f := range st.Fields.List {
			for _, fn := range f.Names {
				switch fn.Name {
				case "sizeCache", "XXX_sizecache":
					g.Cache = fn.Name
					continue
				case "unknownFields", "XXX_unrecognized":
					g.Unknown = fn.Name
					continue
				case "state", "XXX_NoUnkeyedLiteral", "XXX_InternalExtensions", "extensionFields":
					continue
				}
				g.Fields = append(g.Fields, fn.Name)
				if g.Zero == nil {
					g.Zero = map[string]string{}
				}
				g.Zero[fn.Name] = zeroLit(f.Type)
				if g.SetCond == nil {
					g.SetCond = map[string]string{}
				}
				tag := ""
				if f.Tag != nil {
					tag = f.Tag.Value
				}
				g.SetCond[fn.Name] = setCond(f.Type, tag, fn.Name)
				if g.IsIface == nil {
					g.IsIface = map[string]bool{}
					g.MapOfMsg = map[string]bool{}
				}
				if id, ok := f.Type.(*ast.Ident); ok && strings.HasPrefix(id.Name, "is") {
					g.IsIface[fn.Name] = true
				}
				if _, ok := f.Type.(*ast.ArrayType); ok && strings.Contains(tag, ",rep,") {
					if i := strings.Index(tag, "protobuf:\""); i >= 0 {
						parts := strings.Split(tag[i+10:], ",")
						if len(parts) >= 2 {
							switch parts[0] {
							case "varint", "zigzag32", "zigzag64", "fixed32", "fixed64":
								if g.RepNum == nil {
									g.RepNum = map[string][2]string{}
								}
								g.RepNum[fn.Name] = [2]string{parts[0], parts[1]}
							}
						}
					}
				}
				if mt, ok := f.Type.(*ast.MapType); ok {
					if _, ok := mt.Value.(*ast.StarExpr); ok {
						g.MapOfMsg[fn.Name] = true
					}
				}
				if i := strings.Index(tag, "protobuf:\""); i >= 0 {
					parts := strings.Split(tag[i+10:], ",")
					if _, ok := f.Type.(*ast.MapType); ok && len(parts) >= 2 {
						if g.MapNum == nil {
							g.MapNum = map[string]string{}
						}
						g.MapNum[fn.Name] = parts[1]
					}
					if len(parts) >= 3 && (parts[2] == "opt" || parts[2] == "req") {
						base, how := f.Type, "val"
						if se, ok := f.Type.(*ast.StarExpr); ok {
							base, how = se.X, "ptr"
						}
						scalar := false
						switch bt := base.(type) {
						case *ast.Ident:
							scalar = bt.Name != "float32" && bt.Name != "float64" && structs[bt.Name] == nil
						case *ast.SelectorExpr:
							scalar = strings.Contains(tag, ",enum=")
						}
						switch parts[0] {
						case "varint", "zigzag32", "zigzag64", "fixed32", "fixed64":
							if scalar {
								if g.SingNum == nil {
									g.SingNum = map[string][3]string{}
								}
								g.SingNum[fn.Name] = [3]string{parts[0], parts[1], how}
							}
						}
					}
				}
				if at, ok := f.Type.(*ast.ArrayType); ok {
					if in, ok := at.Elt.(*ast.ArrayType); ok {
						if id, ok := in.Elt.(*ast.Ident); ok && (id.Name == "byte" || id.Name == "uint8") {
							g.RepBytes = append(g.RepBytes, fn.Name)
						}
					}
				}
				if se, ok := f.Type.(*ast.StarExpr); ok {
					if id, ok := se.X.(*ast.Ident); ok && id.Name == "string" {
						g.StrPtrs = append(g.StrPtrs, fn.Name)
					}
				}
				if f.Tag != nil && strings.Contains(f.Tag.Value, ",req,") {
					g.Required = append(g.Required, fn.Name)
					if se, ok := f.Type.(*ast.StarExpr); ok {
						if id, ok := se.X.(*ast.Ident); ok && structs[id.Name] != nil {
							if g.ReqMsg == nil {
								g.ReqMsg = map[string]bool{}
							}
							g.ReqMsg[fn.Name] = true
						}
					}
				}
				switch ft := f.Type.(type) {
				case *ast.ArrayType:
					if id, ok := ft.Elt.(*ast.Ident); ok && (id.Name == "byte" || id.Name == "uint8") {
						g.Bytes = append(g.Bytes, fn.Name)
					} else {
						g.Slices = append(g.Slices, fn.Name)
					}
				case *ast.MapType:
					g.Maps = append(g.Maps, fn.Name)
				case *ast.Ident:
					if ft.Name == "string" {
						g.Strings = append(g.Strings, fn.Name)
					}
				}
			}
		}
		out = append(out, g)
	}
	return pkgName, out, nil
}

// switchTagsOf: the integer case labels of `switch tag { ... }` in a generated Unmarshal.
func switchTagsOf(body *ast.BlockStmt) []string {
	var out []string
	ast.Inspect(body, func(n ast.Node) bool {
		sw, ok := n.(*ast.SwitchStmt)
		if !ok {
			return true
		}
		id, ok := sw.Tag.(*ast.Ident)
		if !ok || id.Name != "tag" {
			return true
		}
		for _, st := range sw.Body.List {
			cc, ok := st.(*ast.CaseClause)
			if !ok {
				continue
			}
			for _, e := range cc.List {
				if bl, ok := e.(*ast.BasicLit); ok && bl.Kind == token.INT {
					out = append(out, bl.Value)
				}
			}
		}
		return false
	})
	return out
}

// setCond: when the reference runtime considers field name (of Go type e, struct tag tag) set.
func setCond(e ast.Expr, tag, name string) string {
	m := "m." + name
	switch t := e.(type) {
	case *ast.StarExpr, *ast.InterfaceType:
		return m + " != nil"
	case *ast.MapType:
		return "len(" + m + ") > 0"
	case *ast.ArrayType:
		if id, ok := t.Elt.(*ast.Ident); ok && (id.Name == "byte" || id.Name == "uint8") {
			// bytes: explicit presence (nil vs non-nil) in proto2 and for proto3 optional fields
			if !strings.Contains(tag, ",proto3") || strings.Contains(tag, ",oneof") {
				return m + " != nil"
			}
		}
		return "len(" + m + ") > 0"
	case *ast.Ident:
		switch t.Name {
		case "string":
			return m + ` != ""`
		case "bool":
			return m
		}
		if strings.HasPrefix(t.Name, "is") {
			return m + " != nil"
		}
		return m + " != 0"
	}
	return m + " != 0"
}

// zeroLit: the Go zero literal of a generated message field's type.
func zeroLit(e ast.Expr) string {
	switch t := e.(type) {
	case *ast.StarExpr, *ast.ArrayType, *ast.MapType, *ast.InterfaceType:
		return "nil"
	case *ast.Ident:
		switch t.Name {
		case "string":
			return `""`
		case "bool":
			return "false"
		case "int32", "int64", "uint32", "uint64", "float32", "float64", "int", "uint":
			return "0"
		}
		if strings.HasPrefix(t.Name, "is") {
			return "nil" // oneof wrapper interface
		}
		return "0" // enum
	}
	return "0"
}

// msgExtsOf finds `if extVal, _ := csproto.GetExtension(m, E); extVal != nil { ... csproto.Size(extVal) ... }`
// in a generated Size body and returns the descriptors E.
func msgExtsOf(body *ast.BlockStmt) []string {
	var out []string
	ast.Inspect(body, func(n ast.Node) bool {
		is, ok := n.(*ast.IfStmt)
		if !ok || is.Init == nil {
			return true
		}
		as, ok := is.Init.(*ast.AssignStmt)
		if !ok || len(as.Rhs) != 1 {
			return true
		}
		call, ok := as.Rhs[0].(*ast.CallExpr)
		if !ok || len(call.Args) != 2 {
			return true
		}
		sel, ok := call.Fun.(*ast.SelectorExpr)
		if !ok || sel.Sel.Name != "GetExtension" {
			return true
		}
		e, ok := call.Args[1].(*ast.Ident)
		if !ok {
			return true
		}
		usesSize := false
		ast.Inspect(is.Body, func(m ast.Node) bool {
			if c, ok := m.(*ast.CallExpr); ok {
				if s, ok := c.Fun.(*ast.SelectorExpr); ok && s.Sel.Name == "Size" {
					usesSize = true
				}
			}
			return true
		})
		if usesSize {
			out = append(out, e.Name)
		}
		return true
	})
	return out
}

// genHarnesses renders the harness source and contract directives: one C04 harness per
// (message type, field) - every other field holds its zero value, the field under test an
// arbitrary value copied from an arbitrary second message - plus one whole-message harness
// for small types.
func genHarnesses(pkgName string, types []*genType, listBound int) (string, string) {
	var h, c strings.Builder
	fmt.Fprintf(&h, "package %s\n\n// Code generated by gocv (gen.go) from the declarations of this package.  The generated\n// methods themselves are executed (inlined, loops unrolled); their callees in package\n// csproto are replaced by contracts.\n\nimport \"github.com/CrowdStrike/csproto\"\n\nvar _ = csproto.SizeOfVarint\n\n// gocv_lastEncoder: the encoder most recently created (verifier intrinsic; nil natively).\nfunc gocv_lastEncoder() *csproto.Encoder { return nil }\n", pkgName)
	isIn := func(l []string, n string) bool {
		for _, x := range l {
			if x == n {
				return true
			}
		}
		return false
	}
	for _, t := range types {
		for _, f := range t.Fields {
			bound := ""
			switch {
			case isIn(t.Slices, f):
				bound = fmt.Sprintf("\tgocv_assume(len(m.%s) <= %d)\n", f, listBound)
			case isIn(t.Maps, f):
				bound = fmt.Sprintf("\tgocv_assume(len(m.%s) <= 1)\n", f)
			}
			cacheReset := ""
			if t.Cache != "" {
				cacheReset = fmt.Sprintf("\tm.%s = 0 // as in a fresh copy: Marshal computes the size itself\n", t.Cache)
			}
			req := ""
			for _, r := range t.Required {
				if r != f {
					req += fmt.Sprintf("\tm.%[1]s = src.%[1]s\n", r)
				}
			}
			for _, e := range t.MsgExts {
				// the runtime returns a value of the extension's declared Go type - a message
				req += fmt.Sprintf("\tif v := gocv_extSlot(m, %s).val; v != nil {\n\t\t_, ok := v.(csproto.Sizer)\n\t\tgocv_assume(ok)\n\t}\n", e)
			}
			fmt.Fprintf(&h, `
func lemma_c04_%[1]s_%[2]s(m *%[1]s, src *%[1]s) {
	gocv_assume(m != nil && src != nil && m != src)
	var z %[1]s
	*m = z
	m.%[2]s = src.%[2]s
%[4]s%[3]s	gocv_assume(gocv_wellFormed(m.%[2]s))
	sz := m.Size()
	gocv_assume(int(int32(sz)) == sz) // protobuf: a message is smaller than 2 GiB (the size cache is an int32)
	buf := make([]byte, sz)
	err := m.MarshalTo(buf)
	if err == nil && sz > 0 {
		gocv_reach("marshaled")
		gocv_assert(csproto.GocvEncoderOffset(gocv_lastEncoder()) == len(buf), "filled-exactly")
	}
}

func lemma_c04m_%[1]s_%[2]s(m *%[1]s, src *%[1]s) {
	gocv_assume(m != nil && src != nil && m != src)
	var z %[1]s
	*m = z
	m.%[2]s = src.%[2]s
%[4]s%[3]s	gocv_assume(gocv_wellFormed(m.%[2]s))
	sz := m.Size()
	gocv_assume(int(int32(sz)) == sz) // protobuf: a message is smaller than 2 GiB
%[5]s	b, err := m.Marshal()
	if err == nil {
		gocv_assert(len(b) == sz, "marshal-length-is-size")
	}
}
`, t.Name, f, bound, req, cacheReset)
			fmt.Fprintf(&c, "\n//@ func lemma_c04m_%s_%s(m *%s, src *%s)\n//@   harness\n//@   inlines Size, MarshalTo, Marshal\n//@   abstracts vlen\n//@   bounded %d field %s alone (every other field zero except proto2 required fields, which are arbitrary); repeated fields with at most %d elements, maps with at most 1 entry\n", t.Name, f, t.Name, t.Name, listBound+1, f, listBound)
			fmt.Fprintf(&c, "\n//@ func lemma_c04_%s_%s(m *%s, src *%s)\n//@   harness\n//@   inlines Size, MarshalTo, Marshal\n//@   abstracts vlen\n//@   bounded %d field %s alone (every other field zero except proto2 required fields, which are arbitrary); repeated fields with at most %d elements, maps with at most 1 entry\n", t.Name, f, t.Name, t.Name, listBound+1, f, listBound)
		}
	}
	// C05 (presence only): nothing unset is emitted, nothing set is dropped.
	for _, t := range types {
		noext := ""
		for _, e := range t.MsgExts {
			noext += fmt.Sprintf("\tgocv_assume(!gocv_extSlot(m, %s).has) // unset; what GetExtension returns for it is the runtime's business\n", e)
		}
		if len(t.Required) == 0 {
			fmt.Fprintf(&h, `
func lemma_c05z_%[1]s(m *%[1]s) {
	gocv_assume(m != nil)
	var z %[1]s
	*m = z
%[2]s	gocv_assert(m.Size() == 0, "unset-fields-emit-nothing")
}
`, t.Name, noext)
			fmt.Fprintf(&c, "\n//@ func lemma_c05z_%s(m *%s)\n//@   harness\n//@   inlines Size\n//@   abstracts vlen\n//@   bounded %d the message with every field unset (no extensions)\n", t.Name, t.Name, listBound+1)
		}
		req := ""
		for _, r := range t.Required {
			req += fmt.Sprintf("\tm.%[1]s = src.%[1]s\n", r)
		}
		reset := ""
		if t.Cache != "" {
			reset = fmt.Sprintf("\tm.%s = 0\n", t.Cache)
		}
		for _, e := range t.MsgExts {
			fmt.Fprintf(&h, `
func lemma_c05x_%[1]s_%[2]s(m *%[1]s, src *%[1]s) {
	gocv_assume(m != nil && src != nil && m != src)
	var z %[1]s
	*m = z
%[3]s	gocv_assume(!gocv_extSlot(m, %[2]s).has) // the extension is not set
	if v := gocv_extSlot(m, %[2]s).val; v != nil {
		_, ok := v.(csproto.Sizer)
		gocv_assume(ok)
	}
	s1 := m.Size() // GetExtension may still return a non-nil default (google v2: a typed nil message)
%[4]s	gocv_extSlot(m, %[2]s).val = nil
	s0 := m.Size()
	gocv_assert(s1 == s0, "unset-extension-emits-nothing")
}
`, t.Name, e, req, reset)
			fmt.Fprintf(&c, "\n//@ func lemma_c05x_%s_%s(m *%s, src *%s)\n//@   harness\n//@   inlines Size\n//@   abstracts vlen\n//@   bounded %d extension %s unset, proto2 required fields arbitrary, every other field zero\n", t.Name, e, t.Name, t.Name, listBound+1, e)
		}
		for _, f := range t.Fields {
			if isIn(t.Required, f) || t.IsIface[f] {
				continue // required fields are always set; oneof interfaces: the set of wrapper types is not enumerated here
			}
			if t.MapOfMsg[f] {
				continue // a nil message as map value: what the reference emits is not modelled
			}
			bound := ""
			switch {
			case isIn(t.Slices, f):
				bound = fmt.Sprintf("\tgocv_assume(len(m.%s) <= %d)\n", f, listBound)
			case isIn(t.Maps, f):
				bound = fmt.Sprintf("\tgocv_assume(len(m.%s) <= 1)\n", f)
			}
			fmt.Fprintf(&h, `
func lemma_c05p_%[1]s_%[2]s(m *%[1]s, src *%[1]s) {
	gocv_assume(m != nil && src != nil && m != src)
	var z %[1]s
	*m = z
%[6]s%[5]s	s0 := m.Size() // field %[2]s unset
%[7]s	m.%[2]s = src.%[2]s
%[3]s	gocv_assume(%[4]s) // the field is set, as the reference runtime sees presence
	s1 := m.Size()
	gocv_assert(s1 > s0, "presence-shows-in-the-encoding")
}
`, t.Name, f, bound, t.SetCond[f], noext, req, reset)
			fmt.Fprintf(&c, "\n//@ func lemma_c05p_%s_%s(m *%s, src *%s)\n//@   harness\n//@   inlines Size\n//@   abstracts vlen\n//@   bounded %d field %s unset versus set (any set value), proto2 required fields arbitrary, every other field zero; repeated fields with at most %d elements, maps with at most 1 entry\n", t.Name, f, t.Name, t.Name, listBound+1, f, listBound)
		}
	}
	// C09: what Size reports does not depend on what the size cache holds (the cache is also
	// written by the protobuf runtime and survives field assignments: any int32 may be there).
	for _, t := range types {
		if t.Cache == "" {
			continue
		}
		pre := ""
		for _, r := range t.Required {
			pre += fmt.Sprintf("\tm.%[1]s = src.%[1]s\n", r)
		}
		for _, e := range t.MsgExts {
			pre += fmt.Sprintf("\tif v := gocv_extSlot(m, %s).val; v != nil {\n\t\t_, ok := v.(csproto.Sizer)\n\t\tgocv_assume(ok)\n\t}\n", e)
		}
		unkset := ""
		if t.Unknown != "" {
			unkset = fmt.Sprintf("\tm.%[1]s = src.%[1]s // arbitrary unknown-field bytes\n", t.Unknown)
		}
		fmt.Fprintf(&h, `
func lemma_c09_%[1]s(m *%[1]s, src *%[1]s, c int32) {
	gocv_assume(m != nil && src != nil && m != src)
	var z %[1]s
	*m = z
%[3]s%[4]s	m.%[2]s = c
	s1 := m.Size()
	m.%[2]s = 0
	s2 := m.Size()
	gocv_assert(s1 == s2, "size-independent-of-cache")
}

func lemma_c09s_%[1]s(m *%[1]s, src *%[1]s) {
	gocv_assume(m != nil && src != nil && m != src)
	var z %[1]s
	*m = z
%[3]s%[4]s	s1 := m.Size() // computes and stores the cache
	gocv_assume(int(int32(s1)) == s1) // protobuf: a message is smaller than 2 GiB
	s2 := m.Size() // nothing was mutated in between: the stored value must be the size
	gocv_assert(s1 == s2, "size-stable-without-mutation")
}
`, t.Name, t.Cache, pre, unkset)
		fmt.Fprintf(&c, "\n//@ func lemma_c09s_%s(m *%s, src *%s)\n//@   harness\n//@   inlines Size\n//@   abstracts vlen\n//@   bounded %d every field zero except proto2 required fields and the unknown-field bytes (arbitrary)\n", t.Name, t.Name, t.Name, listBound+1)
		fmt.Fprintf(&c, "\n//@ func lemma_c09_%s(m *%s, src *%s, c int32)\n//@   harness\n//@   inlines Size\n//@   abstracts vlen\n//@   bounded %d every field zero except proto2 required fields and the unknown-field bytes (arbitrary); the size cache arbitrary\n", t.Name, t.Name, t.Name, listBound+1)
	}
	// C17 (marshal direction): a message with an unset required field is rejected.
	for _, t := range types {
		if len(t.Required) == 0 {
			continue
		}
		exts := ""
		for _, e := range t.MsgExts {
			exts += fmt.Sprintf("\tif v := gocv_extSlot(m, %s).val; v != nil {\n\t\t_, ok := v.(csproto.Sizer)\n\t\tgocv_assume(ok)\n\t}\n", e)
		}
		cacheReset := ""
		if t.Cache != "" {
			cacheReset = fmt.Sprintf("\tm.%s = 0 // as in a fresh copy: Marshal computes the size itself\n", t.Cache)
		}
		variants := append([]string{"none"}, t.Required...)
		for _, miss := range variants {
			pre := ""
			for _, r := range t.Required {
				if miss != "none" && r != miss {
					pre += fmt.Sprintf("\tm.%[1]s = src.%[1]s\n", r)
				}
			}
			what := "required field " + miss + " unset, the other required fields arbitrary"
			if miss == "none" {
				what = "every required field unset (the empty message)"
			}
			fmt.Fprintf(&h, `
func lemma_c17_%[1]s_%[2]s(m *%[1]s, src *%[1]s) {
	gocv_assume(m != nil && src != nil && m != src)
	var z %[1]s
	*m = z
%[3]s%[4]s	sz := m.Size()
	gocv_assume(int(int32(sz)) == sz) // protobuf: a message is smaller than 2 GiB
	buf := make([]byte, sz)
	err2 := m.MarshalTo(buf)
	gocv_assert(err2 != nil, "marshalto-rejects-missing-required")
%[5]s	_, err := m.Marshal()
	gocv_assert(err != nil, "marshal-rejects-missing-required")
}
`, t.Name, miss, pre, exts, cacheReset)
			fmt.Fprintf(&c, "\n//@ func lemma_c17_%s_%s(m *%s, src *%s)\n//@   harness\n//@   inlines Size, MarshalTo, Marshal\n//@   abstracts vlen\n//@   bounded %d %s; every other field zero\n", t.Name, miss, t.Name, t.Name, listBound+1, what)
		}
		// converse: all required fields set (scalar ones), nothing else: no error
		allScalar := len(t.ReqMsg) == 0
		if allScalar {
			pre := ""
			for _, r := range t.Required {
				pre += fmt.Sprintf("\tm.%[1]s = src.%[1]s\n\tgocv_assume(m.%[1]s != nil)\n", r)
			}
			for _, e := range t.MsgExts {
				pre += fmt.Sprintf("\tgocv_assume(gocv_extSlot(m, %s).val == nil)\n", e)
			}
			fmt.Fprintf(&h, `
func lemma_c17_%[1]s_all(m *%[1]s, src *%[1]s) {
	gocv_assume(m != nil && src != nil && m != src)
	var z %[1]s
	*m = z
%[2]s	sz := m.Size()
	gocv_assume(int(int32(sz)) == sz)
	buf := make([]byte, sz)
	err := m.MarshalTo(buf)
	gocv_assert(err == nil, "no-spurious-required-error")
}
`, t.Name, pre)
			fmt.Fprintf(&c, "\n//@ func lemma_c17_%s_all(m *%s, src *%s)\n//@   harness\n//@   inlines Size, MarshalTo\n//@   abstracts vlen\n//@   bounded %d every required field set, every other field zero, no extensions\n", t.Name, t.Name, t.Name, listBound+1)
		}
	}
	// Unmarshal harnesses (C08 totality, C10 aliasing, C07 unknown fields, C17 required on
	// decode).  Reset is generated by protoc-gen-go, not by this repository: trusted contract.
	for _, t := range types {
		if !t.HasUnmarshal {
			continue
		}
		var ens []string
		for _, f := range t.Fields {
			ens = append(ens, fmt.Sprintf("x.%s == %s", f, t.Zero[f]))
		}
		if t.Unknown != "" {
			ens = append(ens, fmt.Sprintf("x.%s == nil", t.Unknown))
		}
		if t.Cache != "" {
			ens = append(ens, fmt.Sprintf("x.%s == 0", t.Cache))
		}
		fmt.Fprintf(&c, "\n//@ func (x *%s) Reset()\n//@   trusted generated by protoc-gen-go (outside this repository): zeroes the message; the runtime's bookkeeping fields are not modelled\n", t.Name)
		for _, e := range ens {
			fmt.Fprintf(&c, "//@   ensures %s\n", e)
		}
		fmt.Fprintf(&c, "//@   modifies *x\n")

		outer := unmarshalFields
		if len(t.Maps) > 4 {
			outer = 1 // a message of many map fields: one top-level field (each entry loop is still followed in full)
		}
		fmt.Fprintf(&h, `
func lemma_c08_%[1]s(m *%[1]s, p []byte) {
	gocv_assume(m != nil)
	_ = m.Unmarshal(p)
}
`, t.Name)
		fmt.Fprintf(&c, "\n//@ func lemma_c08_%s(m *%s, p []byte)\n//@   harness\n//@   inlines Unmarshal\n//@   cuts\n//@   outer %d\n//@   bounded %d inputs with at most %d top-level fields (arbitrary bytes otherwise); the destination arbitrary\n", t.Name, t.Name, outer, unmarshalFields, outer)

		// C06 (wire variants of repeated scalars): one element unpacked, and a packed run of one
		// element, are both accepted and yield one element
		for _, f := range t.Fields {
			rn, ok := t.RepNum[f]
			if !ok {
				continue
			}
			var num uint64
			fmt.Sscan(rn[1], &num)
			ewt, esz := 0, 1 // element wire type and size in bytes (varint: one byte below 0x80)
			switch rn[0] {
			case "fixed32":
				ewt, esz = 5, 4
			case "fixed64":
				ewt, esz = 1, 8
			}
			kb := func(wt int) []byte {
				k := num<<3 | uint64(wt)
				var out []byte
				for k >= 0x80 {
					out = append(out, byte(k)|0x80)
					k >>= 7
				}
				return append(out, byte(k))
			}
			lit := func(key []byte, lenByte int) string {
				var parts []string
				for _, b := range key {
					parts = append(parts, fmt.Sprintf("0x%02x", b))
				}
				if lenByte >= 0 {
					parts = append(parts, fmt.Sprint(lenByte))
				}
				for i := 0; i < esz; i++ {
					parts = append(parts, fmt.Sprintf("b%d", i))
				}
				return "[]byte{" + strings.Join(parts, ", ") + "}"
			}
			params := ""
			for i := 0; i < esz; i++ {
				params += fmt.Sprintf(", b%d", i)
			}
			params = strings.TrimPrefix(params, ", ") + " byte"
			small := ""
			if ewt == 0 {
				small = "\tgocv_assume(b0 < 0x80) // a one-byte varint\n"
			}
			fmt.Fprintf(&h, `
func lemma_c06u_%[1]s_%[2]s(m *%[1]s, %[3]s) {
	gocv_assume(m != nil)
%[4]s	p := %[5]s // key of (%[6]s, element wire type %[7]d), then one element
	_ = m.Unmarshal(p)
	gocv_assert(len(m.%[2]s) == 1, "unpacked-element-accepted")
}
`, t.Name, f, params, small, lit(kb(ewt), -1), rn[1], ewt)
			fmt.Fprintf(&c, "\n//@ func lemma_c06u_%s_%s(m *%s, %s)\n//@   harness\n//@   inlines Unmarshal\n//@   cuts\n//@   outer 1\n//@   bounded %d the input is exactly one unpacked element of repeated field %s (a one-byte varint or any fixed-width value)\n", t.Name, f, t.Name, params, unmarshalFields, f)
			fmt.Fprintf(&h, `
func lemma_c06p_%[1]s_%[2]s(m *%[1]s, %[3]s) {
	gocv_assume(m != nil)
%[4]s	p := %[5]s // key of (%[6]s, length-delimited), length %[7]d, one element
	_ = m.Unmarshal(p)
	gocv_assert(len(m.%[2]s) == 1, "packed-run-accepted")
}
`, t.Name, f, params, small, lit(kb(2), esz), rn[1], esz)
			fmt.Fprintf(&c, "\n//@ func lemma_c06p_%s_%s(m *%s, %s)\n//@   harness\n//@   inlines Unmarshal, DecodePackedBool, DecodePackedInt32, DecodePackedInt64, DecodePackedUint32, DecodePackedUint64, DecodePackedSint32, DecodePackedSint64, DecodePackedFixed32, DecodePackedFixed64, DecodePackedFloat32, DecodePackedFloat64\n//@   cuts\n//@   outer 1\n//@   bounded %d the input is exactly one packed run holding one element of repeated field %s\n", t.Name, f, t.Name, params, unmarshalFields, f)
		}
		// C06, further clauses decidable on literal inputs without the reference decoder
		keyLit := func(numStr string, wt int) string {
			var num uint64
			fmt.Sscan(numStr, &num)
			k := num<<3 | uint64(wt)
			var parts []string
			for k >= 0x80 {
				parts = append(parts, fmt.Sprintf("0x%02x", byte(k)|0x80))
				k >>= 7
			}
			parts = append(parts, fmt.Sprintf("0x%02x", byte(k)))
			return strings.Join(parts, ", ")
		}
		kindWire := func(kind string) (int, int) {
			switch kind {
			case "fixed32":
				return 5, 4
			case "fixed64":
				return 1, 8
			}
			return 0, 1
		}
		byteNames := func(prefix string, n int) []string {
			var out []string
			for i := 0; i < n; i++ {
				out = append(out, fmt.Sprintf("%s%d", prefix, i))
			}
			return out
		}
		// (a) a repeated scalar split over two occurrences, one packed and one unpacked: both kept, in order
		for _, f := range t.Fields {
			rn, ok := t.RepNum[f]
			if !ok {
				continue
			}
			ewt, esz := kindWire(rn[0])
			a, b := byteNames("a", esz), byteNames("b", esz)
			params := strings.Join(append(append([]string{}, a...), b...), ", ") + " byte"
			small := ""
			if ewt == 0 {
				small = "\tgocv_assume(a0 < 0x80 && b0 < 0x80) // one-byte varints\n"
			}
			fmt.Fprintf(&h, `
func lemma_c06s_%[1]s_%[2]s(m *%[1]s, %[3]s) {
	gocv_assume(m != nil)
%[4]s	p := []byte{%[5]s, %[6]d, %[7]s, %[8]s, %[9]s} // a packed run of one element, then one unpacked element
	_ = m.Unmarshal(p)
	gocv_assert(len(m.%[2]s) == 2, "split-occurrences-concatenated")
}
`, t.Name, f, params, small, keyLit(rn[1], 2), esz, strings.Join(a, ", "), keyLit(rn[1], ewt), strings.Join(b, ", "))
			fmt.Fprintf(&c, "\n//@ func lemma_c06s_%s_%s(m *%s, %s)\n//@   harness\n//@   inlines Unmarshal, DecodePackedBool, DecodePackedInt32, DecodePackedInt64, DecodePackedUint32, DecodePackedUint64, DecodePackedSint32, DecodePackedSint64, DecodePackedFixed32, DecodePackedFixed64, DecodePackedFloat32, DecodePackedFloat64\n//@   cuts\n//@   outer 2\n//@   bounded %d the input is exactly a packed run of one element followed by one unpacked element of repeated field %s\n", t.Name, f, t.Name, params, unmarshalFields, f)
		}
		// (b) a singular integer/bool/enum field occurring twice: the last occurrence wins, i.e. the
		// result is the one of the input holding only the second occurrence
		for _, f := range t.Fields {
			sn, ok := t.SingNum[f]
			if !ok {
				continue
			}
			ewt, esz := kindWire(sn[0])
			a, b := byteNames("a", esz), byteNames("b", esz)
			params := strings.Join(append(append([]string{}, a...), b...), ", ") + " byte"
			small := ""
			if ewt == 0 {
				small = "\tgocv_assume(a0 < 0x80 && b0 < 0x80) // one-byte varints\n"
			}
			cmp := fmt.Sprintf("m.%[1]s == m2.%[1]s", f)
			if sn[2] == "ptr" {
				cmp = fmt.Sprintf("m.%[1]s != nil && m2.%[1]s != nil && *m.%[1]s == *m2.%[1]s", f)
			}
			key := keyLit(sn[1], ewt)
			fmt.Fprintf(&h, `
func lemma_c06l_%[1]s_%[2]s(m *%[1]s, m2 *%[1]s, %[3]s) {
	gocv_assume(m != nil && m2 != nil && m != m2)
%[4]s	p := []byte{%[5]s, %[6]s, %[5]s, %[7]s} // the field twice
	q := []byte{%[5]s, %[7]s} // its second occurrence alone
	e1 := m.Unmarshal(p)
	e2 := m2.Unmarshal(q)
	gocv_assert((e1 == nil) == (e2 == nil), "duplicate-singular-accepted")
	if e1 == nil && e2 == nil {
		gocv_assert(%[8]s, "last-occurrence-wins")
	}
}
`, t.Name, f, params, small, key, strings.Join(a, ", "), strings.Join(b, ", "), cmp)
			fmt.Fprintf(&c, "\n//@ func lemma_c06l_%s_%s(m *%s, m2 *%s, %s)\n//@   harness\n//@   inlines Unmarshal\n//@   cuts\n//@   outer 2\n//@   bounded %d the input is exactly two occurrences of singular field %s (one-byte varints or any fixed-width values), compared with the input holding the second occurrence alone\n", t.Name, f, t.Name, t.Name, params, unmarshalFields, f)
		}
		// (c) the result does not depend on the destination's previous content: the empty input
		// leaves every field at its zero value whatever the destination held
		{
			var as strings.Builder
			for _, f := range t.Fields {
				fmt.Fprintf(&as, "\tgocv_assert(m.%[1]s == %[2]s, \"destination-content-discarded-%[1]s\")\n", f, t.Zero[f])
			}
			if t.Unknown != "" {
				fmt.Fprintf(&as, "\tgocv_assert(len(m.%[1]s) == 0, \"destination-content-discarded-%[1]s\")\n", t.Unknown)
			}
			fmt.Fprintf(&h, `
func lemma_c06d_%[1]s(m *%[1]s) {
	gocv_assume(m != nil)
	p := []byte{}
	_ = m.Unmarshal(p)
%[2]s}
`, t.Name, as.String())
			fmt.Fprintf(&c, "\n//@ func lemma_c06d_%s(m *%s)\n//@   harness\n//@   inlines Unmarshal, csprotoCheckRequiredFields\n//@   cuts\n//@   outer 1\n//@   bounded %d the empty input into an arbitrary destination\n", t.Name, t.Name, unmarshalFields)
		}
		// (d) a map entry whose key and value are both omitted (a conforming writer may omit default values)
		if len(t.Required) == 0 {
			for _, f := range t.Maps {
				num, ok := t.MapNum[f]
				if !ok {
					continue
				}
				fmt.Fprintf(&h, `
func lemma_c06m_%[1]s_%[2]s(m *%[1]s) {
	gocv_assume(m != nil)
	p := []byte{%[3]s, 0x00} // one entry of map field %[2]s, declared length 0: key and value omitted
	err := m.Unmarshal(p)
	gocv_assert(err == nil, "map-entry-with-omitted-fields-accepted")
}
`, t.Name, f, keyLit(num, 2))
				fmt.Fprintf(&c, "\n//@ func lemma_c06m_%s_%s(m *%s)\n//@   harness\n//@   inlines Unmarshal\n//@   cuts\n//@   outer 1\n//@   bounded %d the input is exactly one empty entry of map field %s\n", t.Name, f, t.Name, unmarshalFields, f)
			}
		}
		// C09: what Unmarshal leaves in the size cache.  After decoding a valid but non-canonical
		// input (a singular scalar twice) Size() must be the size of the contents, i.e. what it is
		// with the cache cleared.
		if t.Cache != "" {
			var names []string
			for _, f := range t.Fields {
				if sn, ok := t.SingNum[f]; ok && (sn[0] == "varint" || sn[0] == "zigzag32" || sn[0] == "zigzag64") {
					names = append(names, f)
				}
			}
			if len(names) > 0 {
				f := names[0]
				key := keyLit(t.SingNum[f][1], 0)
				fmt.Fprintf(&h, `
func lemma_c09u_%[1]s(m *%[1]s, a0, b0 byte) {
	gocv_assume(m != nil)
	gocv_assume(a0 < 0x80 && b0 < 0x80) // one-byte varints
	p := []byte{%[2]s, a0, %[2]s, b0} // field %[3]s twice: valid, not canonical
	err := m.Unmarshal(p)
	if err != nil {
		return
	}
	s1 := m.Size()
	m.%[4]s = 0
	s2 := m.Size()
	gocv_assert(s1 == s2, "size-after-unmarshal-is-the-size-of-the-contents")
}
`, t.Name, key, f, t.Cache)
				fmt.Fprintf(&c, "\n//@ func lemma_c09u_%s(m *%s, a0, b0 byte)\n//@   harness\n//@   inlines Unmarshal, Size\n//@   abstracts vlen\n//@   cuts\n//@   outer 2\n//@   bounded %d the input is exactly two occurrences of singular field %s (one-byte varints); Size() right after Unmarshal against Size() with the cache cleared\n", t.Name, t.Name, unmarshalFields, f)
			}
		}
		// C17, decode direction
		if len(t.Required) > 0 {
			var as strings.Builder
			for _, r := range t.Required {
				fmt.Fprintf(&as, "\tgocv_assert(m.%[1]s != nil, \"unmarshal-rejects-missing-%[1]s\")\n", r)
			}
			fmt.Fprintf(&h, `
func lemma_c17u_%[1]s(m *%[1]s, p []byte) {
	gocv_assume(m != nil)
	err := m.Unmarshal(p)
	if err != nil {
		return
	}
%[2]s}
`, t.Name, as.String())
			fmt.Fprintf(&c, "\n//@ func lemma_c17u_%s(m *%s, p []byte)\n//@   harness\n//@   inlines Unmarshal, csprotoCheckRequiredFields\n//@   cuts\n//@   outer %d\n//@   bounded %d arbitrary input (the empty input included) followed through at most %d top-level fields\n", t.Name, t.Name, outer, len(t.Required)+2, outer)
		}
		// C07
		if t.Unknown != "" {
			accepted := "\tgocv_assert(err == nil, \"unknown-field-accepted\")\n"
			if len(t.Required) > 0 {
				// the input lacks the required fields: the required-field error is the right answer
				accepted = "\t_ = err\n"
			}
			// a field number the generated dispatch does not handle, and its minimally encoded key
			known := map[string]bool{}
			for _, n := range t.Tags {
				known[n] = true
			}
			unk := 1
			for known[fmt.Sprint(unk)] {
				unk++
			}
			keyBytes := func(wt int) []byte {
				k := uint64(unk)<<3 | uint64(wt)
				var out []byte
				for k >= 0x80 {
					out = append(out, byte(k)|0x80)
					k >>= 7
				}
				return append(out, byte(k))
			}
			keyAssume := func(off int, wt int) (string, int) {
				var sb strings.Builder
				kb := keyBytes(wt)
				for i, b := range kb {
					if i > 0 {
						sb.WriteString(" && ")
					}
					fmt.Fprintf(&sb, "p[%d] == 0x%02x", off+i, b)
				}
				return sb.String(), len(kb)
			}
			uname := "lemma_c07u_"
			if len(t.Fields) > 6 {
				uname = "lemma_c07ubig_" // thorough tier only: the unknown-field branch is the same template text for every type
			}
			for _, wt := range []int{0, 1, 2, 5} {
				ka, kl := keyAssume(0, wt)
				fmt.Fprintf(&h, `
func %[5]s%[1]s_wt%[6]d(m *%[1]s, p []byte) {
	gocv_assume(m != nil && len(p) > %[7]d)
	gocv_assume(%[3]s) // the minimally encoded key of field %[8]d (not in the schema), wire type %[6]d
	gocv_assume(fieldStrict(p, 0) && fieldEnd(p, 0) == len(p)) // p is exactly one well-formed field
	err := m.Unmarshal(p)
%[4]s	gocv_assert(len(m.%[2]s) == len(p) && gocv_prefixEq(m.%[2]s, p, len(p)), "unknown-field-retained")
}
`, t.Name, t.Unknown, ka, accepted, uname, wt, kl, unk)
				fmt.Fprintf(&c, "\n//@ func %s%s_wt%d(m *%s, p []byte)\n//@   harness\n//@   inlines Unmarshal\n//@   cuts\n//@   outer 1\n//@   bounded %d the input is exactly one well-formed field of wire type %d with the minimally encoded key of field number %d, which the schema does not define; payload arbitrary\n", uname, t.Name, wt, t.Name, unmarshalFields, wt, unk)
			}
			if len(t.Fields) <= 6 && len(t.Maps) == 0 {
				// two unknown fields in a row, as a literal input: two one-byte varint fields
				kbs := keyBytes(0)
				var parts []string
				for rep := 0; rep < 2; rep++ {
					for _, b := range kbs {
						parts = append(parts, fmt.Sprintf("0x%02x", b))
					}
					parts = append(parts, fmt.Sprintf("b%d", rep))
				}
				n := len(parts)
				var eqs []string
				for i := 0; i < n; i++ {
					eqs = append(eqs, fmt.Sprintf("m.%s[%d] == p[%d]", t.Unknown, i, i))
				}
				fmt.Fprintf(&h, `
func lemma_c07v_%[1]s(m *%[1]s, b0, b1 byte) {
	gocv_assume(m != nil && b0 < 0x80 && b1 < 0x80)
	p := []byte{%[3]s} // unknown field %[5]d (varint, one payload byte), twice
	err := m.Unmarshal(p)
%[4]s	gocv_assert(len(m.%[2]s) == %[6]d, "both-unknown-fields-retained")
	gocv_assert(%[7]s, "unknown-fields-retained-in-order")
}
`, t.Name, t.Unknown, strings.Join(parts, ", "), accepted, unk, n, strings.Join(eqs, " && "))
				fmt.Fprintf(&c, "\n//@ func lemma_c07v_%s(m *%s, b0, b1 byte)\n//@   harness\n//@   inlines Unmarshal\n//@   cuts\n//@   outer 2\n//@   bounded %d the input is exactly two unknown varint fields with one payload byte each\n", t.Name, t.Name, unmarshalFields)
			}
			if false {
				// two unknown fields in a row (NOT generated: after the first iteration the cursor is a
				// merge over every dispatch case and the second Skip's premises are not decided in
				// useful time; see DESIGN.md 0.7)
				k0, l0 := keyAssume(0, 0)
				for _, wt := range []int{0, 2} {
					k1, l1 := keyAssume(l0+1, wt)
					fmt.Fprintf(&h, `
func lemma_c07v_%[1]s_wt%[6]d(m *%[1]s, p []byte) {
	gocv_assume(m != nil && len(p) > %[7]d)
	gocv_assume(%[3]s && p[%[8]d] < 0x80) // unknown field %[9]d, varint, one payload byte
	gocv_assume(%[5]s) // then unknown field %[9]d again, wire type %[6]d
	gocv_assume(fieldStrict(p, %[10]d) && fieldEnd(p, %[10]d) == len(p))
	err := m.Unmarshal(p)
%[4]s	gocv_assert(len(m.%[2]s) == len(p), "both-unknown-fields-retained")
	gocv_assert(gocv_prefixEq(m.%[2]s, p, len(p)), "unknown-fields-retained-in-order")
}
`, t.Name, t.Unknown, k0, accepted, k1, wt, l0+1+l1, l0, unk, l0+1)
					fmt.Fprintf(&c, "\n//@ func lemma_c07v_%s_wt%d(m *%s, p []byte)\n//@   harness\n//@   inlines Unmarshal\n//@   cuts\n//@   outer 2\n//@   bounded %d the input is exactly two well-formed unknown fields: a varint with a one-byte payload, then a field of wire type %d with arbitrary payload\n", t.Name, wt, t.Name, unmarshalFields, wt)
				}
			}
			pre := ""
			for _, r := range t.Required {
				pre += fmt.Sprintf("\tm.%[1]s = src.%[1]s\n", r)
			}
			for _, e := range t.MsgExts {
				pre += fmt.Sprintf("\tif v := gocv_extSlot(m, %s).val; v != nil {\n\t\t_, ok := v.(csproto.Sizer)\n\t\tgocv_assume(ok)\n\t}\n", e)
			}
			reset := ""
			if t.Cache != "" {
				reset = fmt.Sprintf("\tm.%s = 0\n", t.Cache)
			}
			fmt.Fprintf(&h, `
func lemma_c07m_%[1]s(m *%[1]s, src *%[1]s, u []byte) {
	gocv_assume(m != nil && src != nil && m != src)
	var z %[1]s
	*m = z
%[3]s	s0 := m.Size()
%[4]s	m.%[2]s = u
	s1 := m.Size()
	gocv_assume(int(int32(s1)) == s1) // protobuf: a message is smaller than 2 GiB
	gocv_assert(s1 == s0+len(u), "size-accounts-for-unknown-fields")
	buf := make([]byte, s1)
	err := m.MarshalTo(buf)
	if err == nil {
		gocv_assert(csproto.GocvEncoderOffset(gocv_lastEncoder()) == len(buf), "filled-exactly")
		gocv_assert(gocv_prefixEq(buf[s0:], u, len(u)), "unknown-fields-re-emitted-verbatim")
	}
}
`, t.Name, t.Unknown, pre, reset)
			fmt.Fprintf(&c, "\n//@ func lemma_c07m_%s(m *%s, src *%s, u []byte)\n//@   harness\n//@   inlines Size, MarshalTo\n//@   abstracts vlen\n//@   bounded %d every schema field zero except proto2 required fields (arbitrary); the unknown-field bytes arbitrary\n", t.Name, t.Name, t.Name, listBound+1)
		}
		// C10
		var al strings.Builder
		for _, f := range t.Bytes {
			fmt.Fprintf(&al, "\tgocv_assert(len(m.%[1]s) == 0 || !gocv_sameArr(m.%[1]s, p), \"no-alias-%[1]s\")\n", f)
		}
		for _, f := range t.Strings {
			fmt.Fprintf(&al, "\tgocv_assert(!gocv_strAliases(m.%[1]s, p), \"no-alias-%[1]s\")\n", f)
		}
		for _, f := range t.StrPtrs {
			fmt.Fprintf(&al, "\tif m.%[1]s != nil {\n\t\tgocv_assert(!gocv_strAliases(*m.%[1]s, p), \"no-alias-%[1]s\")\n\t}\n", f)
		}
		for _, f := range t.RepBytes {
			fmt.Fprintf(&al, "\tif len(m.%[1]s) > 0 {\n\t\tgocv_assert(len(m.%[1]s[0]) == 0 || !gocv_sameArr(m.%[1]s[0], p), \"no-alias-%[1]s\")\n\t}\n", f)
		}
		if t.Unknown != "" {
			fmt.Fprintf(&al, "\tgocv_assert(len(m.%[1]s) == 0 || !gocv_sameArr(m.%[1]s, p), \"no-alias-%[1]s\")\n", t.Unknown)
		}
		if al.Len() > 0 {
			fmt.Fprintf(&h, `
func lemma_c10_%[1]s(m *%[1]s, p []byte) {
	gocv_assume(m != nil)
	err := m.Unmarshal(p)
	if err != nil {
		return
	}
%[2]s}
`, t.Name, al.String())
			fmt.Fprintf(&c, "\n//@ func lemma_c10_%s(m *%s, p []byte)\n//@   harness\n//@   inlines Unmarshal\n//@   cuts\n//@   outer 1\n//@   bounded %d arbitrary input followed through its first top-level field (each map-entry loop in full); string, bytes, first repeated-bytes element and unknown-field storage checked\n", t.Name, t.Name, unmarshalFields)
		}
	}
	return h.String(), c.String()
}

// unmarshalFields: how many top-level fields of the input the Unmarshal harnesses follow.
var unmarshalFields = 2
var listBoundDefault = 1
