package main

// Loading: packages of the repository under verification + overlay files (spec library,
// lemma harnesses, generated contract functions), SSA construction, id tables.

import (
	"fmt"
	"go/token"
	"go/types"
	"os"
	"os/exec"
	"path/filepath"
	"regexp"
	"sort"
	"strings"

	"golang.org/x/tools/go/packages"
	"golang.org/x/tools/go/ssa"
	"golang.org/x/tools/go/ssa/ssautil"
	"golang.org/x/tools/go/types/typeutil"
)

type World struct {
	repo           string
	specDir        string
	fset           *token.FileSet
	prog           *ssa.Program
	pkgs           map[string]*ssa.Package
	targets        map[string]bool
	contracts      map[string]*Contract
	ifaceContracts map[string]*Contract
	allContracts   []*Contract
	typeIDs        typeutil.Map
	typesByID      []types.Type
	namedIDs       map[string]uint64
	funcIDs        map[*ssa.Function]uint64
	overlay        map[string][]byte
	pkgDir         map[string]string
	readsCache     map[*ssa.Function]map[string]bool
	copied         []string
	genSrc         map[string]string // package path -> generated contract source
	loadSeconds    float64
}

type targetPkg struct {
	pattern string // relative dir, e.g. "." or "./lazyproto"
}

// isContractFile: contracts*_verif.go (comment-only, build tag verif).
func isContractFile(name string) bool {
	return strings.HasPrefix(name, "contracts") && strings.HasSuffix(name, "_verif.go")
}

var pkgClauseRe = regexp.MustCompile(`(?m)^package\s+\w+`)

// LoadWorld loads the packages in dirs (relative to repo), with contract files
// `contracts_verif.go` translated and overlaid, plus the spec library.
func LoadWorld(repo, specDir string, dirs []string, extraEnv []string) (*World, error) {
	w := &World{repo: repo, specDir: specDir, pkgs: map[string]*ssa.Package{}, targets: map[string]bool{},
		contracts: map[string]*Contract{}, ifaceContracts: map[string]*Contract{}, namedIDs: map[string]uint64{},
		funcIDs: map[*ssa.Function]uint64{}, overlay: map[string][]byte{}, genSrc: map[string]string{}, pkgDir: map[string]string{}}
	commons, _ := filepath.Glob(filepath.Join(specDir, "*.go"))
	sort.Strings(commons)
	if len(commons) == 0 {
		return nil, fmt.Errorf("spec library not found in %s", specDir)
	}
	type pend struct {
		dir  string
		cons []*Contract
	}
	var pends []pend
	absDirs := make([]string, len(dirs))
	for di, d := range dirs {
		abs := filepath.Join(repo, d)
		if strings.HasPrefix(d, "mod:") {
			// A dependency of the repository (read-only sources in the module cache).  go list
			// does not apply overlays to packages outside the main module, so the package is
			// copied mechanically, on every run, into an overlay-only directory of the
			// repository module; the only rewrite is the import of protobuf's internal errors
			// package (not importable from outside), replaced by the standard errors package.
			ip := strings.TrimPrefix(d, "mod:")
			cmd := exec.Command("go", "list", "-f", "{{.Dir}}", ip)
			cmd.Dir = repo
			cmd.Env = append(os.Environ(), "GOFLAGS=-mod=mod", "GOPROXY=off", "GOSUMDB=off", "GOTOOLCHAIN=local")
			out, err := cmd.Output()
			if err != nil {
				return nil, fmt.Errorf("cannot locate %s: %v", d, err)
			}
			src := strings.TrimSpace(string(out))
			abs = filepath.Join(repo, "zz_gocv_mod_"+filepath.Base(src))
			ents, err := os.ReadDir(src)
			if err != nil {
				return nil, err
			}
			for _, e := range ents {
				if strings.HasSuffix(e.Name(), ".go") && !strings.HasSuffix(e.Name(), "_test.go") {
					b := readFileOr(filepath.Join(src, e.Name()))
					b = []byte(strings.Replace(string(b), `"google.golang.org/protobuf/internal/errors"`, `"errors"`, 1))
					w.overlay[filepath.Join(abs, e.Name())] = b
					w.copied = append(w.copied, fmt.Sprintf("%s/%s copied from the module cache (import of internal/errors rewritten to errors)", ip, e.Name()))
				}
			}
		}
		absDirs[di] = abs
		// package name: from any non-test go file
		pkgName := ""
		var names []string
		if strings.HasPrefix(d, "mod:") {
			for p := range w.overlay {
				if filepath.Dir(p) == abs {
					names = append(names, filepath.Base(p))
				}
			}
			sort.Strings(names)
		} else {
			ents, err := os.ReadDir(abs)
			if err != nil {
				return nil, err
			}
			for _, e := range ents {
				names = append(names, e.Name())
			}
		}
		for _, name := range names {
			if strings.HasSuffix(name, ".go") && !strings.HasSuffix(name, "_test.go") && !isContractFile(name) {
				src := readFileOr(filepath.Join(abs, name))
				if ov, ok := w.overlay[filepath.Join(abs, name)]; ok {
					src = ov
				}
				if strings.Contains(string(src), "//go:build ignore") || strings.Contains(string(src), "// +build tools") || strings.Contains(string(src), "//go:build tools") {
					continue
				}
				if m := pkgClauseRe.Find(src); m != nil {
					pkgName = strings.Fields(string(m))[1]
					break
				}
			}
		}
		if pkgName == "" {
			return nil, fmt.Errorf("no package in %s", abs)
		}
		// spec library copy
		for _, cf := range commons {
			w.overlay[filepath.Join(abs, "zz_gocv_spec_"+filepath.Base(cf))] = pkgClauseRe.ReplaceAll(readFileOr(cf), []byte("package "+pkgName))
		}
		// per-package harness files: specDir/<pkgName>/*.go
		hs, _ := filepath.Glob(filepath.Join(specDir, pkgName, "*.go"))
		// harnesses that need a second package (specDir/<pkg>+<other>/) are only loaded when
		// that package is loaded as well
		for _, od := range dirs {
			if strings.HasPrefix(od, "mod:") {
				more, _ := filepath.Glob(filepath.Join(specDir, pkgName+"+"+filepath.Base(strings.TrimPrefix(od, "mod:")), "*.go"))
				hs = append(hs, more...)
			}
		}
		sort.Strings(hs)
		for _, h := range hs {
			w.overlay[filepath.Join(abs, "zz_gocv_h_"+filepath.Base(h))] = pkgClauseRe.ReplaceAll(readFileOr(h), []byte("package "+pkgName))
		}
		// contracts
		var cons []*Contract
		var cfiles []string
		for _, name := range names {
			if isContractFile(name) {
				cfiles = append(cfiles, filepath.Join(abs, name))
			}
		}
		extra, _ := filepath.Glob(filepath.Join(specDir, pkgName, "*.contracts"))
		cfiles = append(cfiles, extra...)
		for _, od := range dirs {
			if strings.HasPrefix(od, "mod:") {
				more, _ := filepath.Glob(filepath.Join(specDir, pkgName+"+"+filepath.Base(strings.TrimPrefix(od, "mod:")), "*.contracts"))
				cfiles = append(cfiles, more...)
			}
		}
		cc, _ := filepath.Glob(filepath.Join(specDir, "*.contracts"))
		sort.Strings(cc)
		cfiles = append(cfiles, cc...)
		var gen strings.Builder
		fmt.Fprintf(&gen, "package %s\n\n", pkgName)
		impSeen := map[string]bool{}
		for _, cf := range cfiles {
			for _, im := range contractImports(readFileOr(cf)) {
				if !impSeen[im] {
					impSeen[im] = true
					fmt.Fprintf(&gen, "import %s\n", im)
					// keep the import used even when no clause mentions it
				}
			}
		}
		for _, cf := range cfiles {
			src := readFileOr(cf)
			if src == nil {
				continue
			}
			cs, _, err := parseContractFile(cf, src)
			if err != nil {
				return nil, err
			}
			for _, c := range cs {
				code, err := genContractCode(c)
				if err != nil {
					return nil, fmt.Errorf("%s:%d: %v", c.File, c.Line, err)
				}
				gen.WriteString(code)
				gen.WriteString("\n")
				cons = append(cons, c)
			}
		}
		w.overlay[filepath.Join(abs, "zz_gocv_contracts.go")] = []byte(gen.String())
		pends = append(pends, pend{d, cons})
	}
	cfg := &packages.Config{
		Mode: packages.NeedName | packages.NeedFiles | packages.NeedCompiledGoFiles | packages.NeedImports | packages.NeedDeps |
			packages.NeedTypes | packages.NeedSyntax | packages.NeedTypesInfo | packages.NeedTypesSizes | packages.NeedModule,
		Dir:        repo,
		BuildFlags: []string{"-tags=verif"},
		Env:        append(append(os.Environ(), "GOFLAGS=-mod=mod", "GOPROXY=off", "GOSUMDB=off", "GOTOOLCHAIN=local", "GOARCH=amd64"), extraEnv...),
		Overlay:    w.overlay,
	}
	var pats []string
	for _, d := range dirs {
		if strings.HasPrefix(d, "mod:") {
			rel, _ := filepath.Rel(repo, absDirs[len(pats)])
			pats = append(pats, "./"+rel)
		} else if d == "." || strings.HasPrefix(d, "./") {
			pats = append(pats, d)
		} else {
			pats = append(pats, "./"+d)
		}
	}
	pkgs, err := packages.Load(cfg, pats...)
	if err != nil {
		return nil, err
	}
	nerr := 0
	var msgs []string
	packages.Visit(pkgs, nil, func(p *packages.Package) {
		for _, e := range p.Errors {
			nerr++
			if len(msgs) < 30 {
				msgs = append(msgs, e.Error())
			}
		}
	})
	if nerr > 0 {
		return nil, fmt.Errorf("packages do not type-check:\n%s", strings.Join(msgs, "\n"))
	}
	w.fset = pkgs[0].Fset
	prog, spkgs := ssautil.AllPackages(pkgs, ssa.InstantiateGenerics|ssa.GlobalDebug)
	prog.Build()
	w.prog = prog
	for pi, p := range spkgs {
		if p == nil {
			return nil, fmt.Errorf("no SSA for %s", pkgs[pi].PkgPath)
		}
		// packages.Load does not return packages in pattern order: match by directory
		i := -1
		if len(pkgs[pi].GoFiles) > 0 {
			pd := filepath.Dir(pkgs[pi].GoFiles[0])
			for k, ad := range absDirs {
				if filepath.Clean(ad) == filepath.Clean(pd) {
					i = k
				}
			}
		}
		if i < 0 {
			return nil, fmt.Errorf("cannot match loaded package %s to a requested directory", pkgs[pi].PkgPath)
		}
		w.pkgs[p.Pkg.Path()] = p
		w.targets[p.Pkg.Path()] = true
		w.pkgDir[p.Pkg.Path()] = absDirs[i]
		w.genSrc[p.Pkg.Path()] = string(w.overlay[filepath.Join(absDirs[i], "zz_gocv_contracts.go")])
		for _, c := range pends[i].cons {
			c.Key = strings.ReplaceAll(c.Key, "%PKG%", p.Pkg.Path())
			if err := bindContract(c, p); err != nil {
				return nil, err
			}
			fn := w.lookupFunc(p, c)
			if fn == nil {
				return nil, fmt.Errorf("STALE-CONTRACT %s:%d: no function %s", c.File, c.Line, c.Key)
			}
			c.Fn = fn
			if c.RecvIface {
				w.ifaceContracts[typeKey(fn.Signature.Recv().Type())+"."+fn.Name()] = c
			}
			if err := checkSignature(c, fn); err != nil {
				return nil, fmt.Errorf("STALE-CONTRACT %s:%d: %v", c.File, c.Line, err)
			}
			w.contracts[c.Key] = c
			w.allContracts = append(w.allContracts, c)
		}
	}
	return w, nil
}

// lookupFunc finds the ssa function a contract is about (function, method, or interface
// method for interface contracts).
func (w *World) lookupFunc(p *ssa.Package, c *Contract) *ssa.Function {
	if c.ExternPkg != "" {
		var ep *ssa.Package
		for _, q := range w.prog.AllPackages() {
			if q.Pkg.Path() == c.ExternPkg {
				ep = q
			}
		}
		if ep == nil {
			return nil
		}
		if c.Recv == "" {
			f := ep.Func(c.Short)
			if f != nil {
				c.Key = f.String()
			}
			return f
		}
		parts := strings.SplitN(c.Short, ".", 2)
		tn := parts[0]
		if j := strings.LastIndex(tn, "."); j >= 0 {
			tn = tn[j+1:]
		}
		obj := ep.Pkg.Scope().Lookup(tn)
		if obj == nil {
			return nil
		}
		var recvT types.Type = obj.Type()
		if strings.Contains(c.Recv, "*") {
			recvT = types.NewPointer(recvT)
		}
		sel := w.prog.MethodSets.MethodSet(recvT).Lookup(ep.Pkg, parts[1])
		if sel == nil {
			return nil
		}
		f := w.prog.MethodValue(sel)
		if f != nil {
			c.Key = f.String()
		}
		return f
	}
	if c.Recv == "" {
		return p.Func(c.Short)
	}
	parts := strings.SplitN(c.Short, ".", 2)
	tn, mn := parts[0], parts[1]
	obj := p.Pkg.Scope().Lookup(tn)
	if obj == nil {
		return nil
	}
	named, ok := obj.Type().(*types.Named)
	if !ok {
		return nil
	}
	if _, isI := named.Underlying().(*types.Interface); isI {
		// interface contract: synthesize an abstract function carrier
		c.RecvIface = true
		for i := 0; i < named.NumMethods(); i++ {
			_ = i
		}
		it := named.Underlying().(*types.Interface)
		for i := 0; i < it.NumMethods(); i++ {
			m := it.Method(i)
			if m.Name() == mn {
				c.Key = typeKey(named) + "." + mn
				f := w.prog.NewFunction(tn+"."+mn, m.Type().(*types.Signature), "interface method")
				w.ifaceContracts[typeKey(named)+"."+mn] = c
				return f
			}
		}
		return nil
	}
	var recvT types.Type = named
	if strings.Contains(c.Recv, "*") {
		recvT = types.NewPointer(named)
	}
	sel := w.prog.MethodSets.MethodSet(recvT).Lookup(p.Pkg, mn)
	if sel == nil {
		return nil
	}
	return w.prog.MethodValue(sel)
}

func checkSignature(c *Contract, fn *ssa.Function) error {
	sig := fn.Signature
	n := sig.Params().Len()
	if sig.Recv() != nil {
		n++
	}
	if n != len(c.ParamNames) {
		return fmt.Errorf("%s: contract lists %d parameters, function has %d", c.Short, len(c.ParamNames), n)
	}
	if sig.Results().Len() != len(c.ResultNames) {
		return fmt.Errorf("%s: contract lists %d results, function has %d", c.Short, len(c.ResultNames), sig.Results().Len())
	}
	// the generated functions were type-checked with the contract's parameter types; compare
	var gen *ssa.Function
	switch {
	case len(c.Reqs) > 0:
		gen = c.Reqs[0]
	case len(c.Ens) > 0:
		gen = c.Ens[0]
	case c.Mod != nil:
		gen = c.Mod
	}
	if gen != nil && !c.RecvIface {
		var real []types.Type
		if sig.Recv() != nil {
			real = append(real, sig.Recv().Type())
		}
		for i := 0; i < sig.Params().Len(); i++ {
			real = append(real, sig.Params().At(i).Type())
		}
		for i, t := range real {
			if !types.Identical(t, gen.Signature.Params().At(i).Type()) {
				return fmt.Errorf("%s: parameter %d has type %s, contract says %s", c.Short, i, t, gen.Signature.Params().At(i).Type())
			}
		}
	}
	if len(c.Ens) > 0 {
		inner := c.Ens[0].Signature.Results().At(0).Type().(*types.Signature)
		for i := 0; i < sig.Results().Len(); i++ {
			if !types.Identical(sig.Results().At(i).Type(), inner.Params().At(i).Type()) {
				return fmt.Errorf("%s: result %d has type %s, contract says %s", c.Short, i, sig.Results().At(i).Type(), inner.Params().At(i).Type())
			}
		}
	}
	return nil
}

func (w *World) typeID(t types.Type) uint64 {
	if v := w.typeIDs.At(t); v != nil {
		return v.(uint64)
	}
	w.typesByID = append(w.typesByID, t)
	id := uint64(len(w.typesByID))
	w.typeIDs.Set(t, id)
	return id
}

func (w *World) typeByID(id uint64) types.Type {
	if id == 0 || id > uint64(len(w.typesByID)) {
		return nil
	}
	return w.typesByID[id-1]
}

// namedTypeID gives ids to external concrete types we cannot name through go/types.
func (w *World) namedTypeID(name string) uint64 {
	if id, ok := w.namedIDs[name]; ok {
		return id
	}
	id := uint64(1<<20 + len(w.namedIDs))
	w.namedIDs[name] = id
	return id
}

func (w *World) funcID(f *ssa.Function) uint64 {
	if id, ok := w.funcIDs[f]; ok {
		return id
	}
	id := uint64(1<<40) + uint64(len(w.funcIDs)+1)
	w.funcIDs[f] = id
	return id
}

func (w *World) isTargetFn(fn *ssa.Function) bool {
	if fn.Pkg != nil {
		return w.targets[fn.Pkg.Pkg.Path()]
	}
	if o := fn.Origin(); o != nil && o.Pkg != nil {
		return w.targets[o.Pkg.Pkg.Path()]
	}
	if fn.Parent() != nil {
		return w.isTargetFn(fn.Parent())
	}
	return false
}

var inlinePkgs = map[string]bool{"encoding/binary": true}

func (w *World) inlinable(fn *ssa.Function) bool {
	if w.isTargetFn(fn) {
		return true
	}
	if fn.Pkg != nil && inlinePkgs[fn.Pkg.Pkg.Path()] {
		return true
	}
	if fn.Synthetic != "" && fn.Pkg == nil {
		return true
	}
	return false
}

func (w *World) intrinsic(fn *ssa.Function) (handler, bool) {
	name := fn.Name()
	if o := fn.Origin(); o != nil {
		name = o.Name()
	}
	if !strings.HasPrefix(name, "gocv_") && name != "byteAt" {
		return nil, false
	}
	if !w.isTargetFn(fn) {
		return nil, false
	}
	h, ok := intrinsics[name]
	if !ok || h == nil {
		return nil, false
	}
	return h, true
}

// readPrefixes: heap component prefixes a (spec) function may read, transitively.
func (w *World) readPrefixes(fn *ssa.Function) map[string]bool {
	if w.readsCache == nil {
		w.readsCache = map[*ssa.Function]map[string]bool{}
	}
	if r, ok := w.readsCache[fn]; ok {
		return r
	}
	r := map[string]bool{}
	w.readsCache[fn] = r
	seen := map[*ssa.Function]bool{}
	var visit func(f *ssa.Function)
	visit = func(f *ssa.Function) {
		if seen[f] || f.Blocks == nil {
			return
		}
		seen[f] = true
		for _, b := range f.Blocks {
			for _, instr := range b.Instrs {
				switch in := instr.(type) {
				case *ssa.UnOp:
					if in.Op == token.MUL {
						for _, p := range storePrefixes(in.X) {
							r[p] = true
						}
					}
				case *ssa.Index:
					if isString(in.X.Type()) {
						r[elemPrefix(types.Typ[types.Uint8])] = true
					}
				case *ssa.Lookup:
					r["M:"+typeKey(in.X.Type().Underlying())] = true
				case ssa.CallInstruction:
					if c := in.Common().StaticCallee(); c != nil {
						if c.Name() == "byteAt" {
							r[elemPrefix(types.Typ[types.Uint8])] = true
						}
						visit(c)
					}
				}
			}
		}
	}
	visit(fn)
	return r
}
