package main

// Calls: builtins, intrinsics of the contract language, calls by contract, trusted
// externals, inlining.

import (
	"fmt"
	"os"
	"go/token"
	"go/types"
	"sort"
	"strings"

	"golang.org/x/tools/go/ssa"
)

func (x *Exec) call(fr *frameRun, st *State, in *ssa.Call) error {
	com := in.Common()
	var args []*Val
	for _, a := range com.Args {
		v, err := x.operand(st, a)
		if err != nil {
			return err
		}
		args = append(args, v)
	}
	setRes := func(vals []*Val) {
		switch len(vals) {
		case 0:
			st.env[in] = &Val{T: in.Type()}
		case 1:
			if _, isTup := in.Type().(*types.Tuple); isTup {
				st.env[in] = &Val{T: in.Type(), Tup: vals}
			} else {
				st.env[in] = vals[0]
			}
		default:
			st.env[in] = &Val{T: in.Type(), Tup: vals}
		}
	}
	if b, ok := com.Value.(*ssa.Builtin); ok {
		v, err := x.builtin(st, b, com, args, in.Pos())
		if err != nil {
			return err
		}
		if v != nil {
			st.env[in] = v
		}
		return nil
	}
	if com.IsInvoke() {
		recv, err := x.operand(st, com.Value)
		if err != nil {
			return err
		}
		vals, err := x.invoke(st, recv, com, args, in.Pos())
		if err != nil {
			return err
		}
		setRes(vals)
		return nil
	}
	var fn *ssa.Function
	var bind []*Val
	if f := com.StaticCallee(); f != nil {
		fn = f
		if mc, ok := com.Value.(*ssa.MakeClosure); ok {
			cv, err := x.operand(st, mc)
			if err != nil {
				return err
			}
			bind = cv.Bind
		}
	} else {
		fv, err := x.operand(st, com.Value)
		if err != nil {
			return err
		}
		if fv.Fn == nil {
			vals, err := x.dynamicCall(st, fv, com, args, in.Pos())
			if err != nil {
				return err
			}
			setRes(vals)
			return nil
		}
		fn, bind = fv.Fn, fv.Bind
	}
	vals, err := x.callFn(st, fn, bind, args, in.Pos())
	if err != nil {
		return err
	}
	setRes(vals)
	return nil
}

// callFn dispatches a call to a known function.  It mutates st.
func (x *Exec) callFn(st *State, fn *ssa.Function, bind []*Val, args []*Val, pos token.Pos) ([]*Val, error) {
	name := fn.String()
	if fn.Origin() != nil {
		name = fn.Origin().String()
	}
	if h, ok := x.w.intrinsic(fn); ok {
		return h(x, st, fn, args, pos)
	}
	iname := fn.Name()
	if o := fn.Origin(); o != nil {
		iname = o.Name()
	}
	if x.inlineNames[iname] && fn.Blocks != nil && x.unitFn != nil && x.w.isTargetFn(fn) && (fn.Signature.Recv() != nil || fn.Origin() != nil) {
		// bounded harness: this callee is executed itself (loops unrolled), its own callees
		// are still replaced by their contracts
		x.calls["inlined (bounded harness): "+name]++
		save := x.unrollOverride
		x.unrollOverride = x.harnessUnroll
		vals, ns, err := x.runFuncBind(fn, args, bind, st, nil)
		x.unrollOverride = save
		if err != nil {
			return nil, err
		}
		st.heaps, st.pc, st.top, st.havocs = ns.heaps, ns.pc, ns.top, ns.havocs
		return vals, nil
	}
	allConst := true
	for _, a := range args {
		for _, c := range a.C {
			if !c.IsConst() {
				allConst = false
			}
		}
	}
	if con := x.w.contracts[name]; con != nil && x.abstracted[fn.Name()] && fn.Signature.Recv() == nil && !allConst {
		if len(x.w.readPrefixes(fn)) > 0 {
			return nil, fmt.Errorf("abstracts %s: the function reads the heap", fn.Name())
		}
		x.trusted["abstracted spec function (used through its proved contract): "+con.Key] = true
		x.absCall = true
		vals, err := x.callByContract(st, fn, con, args, pos)
		x.absCall = false
		return vals, err
	}
	if con := x.w.contracts[name]; con != nil {
		if con.Opaque {
			return x.callOpaque(st, fn, con, args, pos)
		}
		if !con.Inline {
			return x.callByContract(st, fn, con, args, pos)
		}
	}
	if h, ok := externals[name]; ok {
		x.trusted["external: "+name] = true
		return h(x, st, fn, args, pos)
	}
	if fn.Blocks != nil && x.w.inlinable(fn) {
		if x.ghost == 0 {
			x.calls["inlined: "+name]++
		}
		vals, ns, err := x.runFuncBind(fn, args, bind, st, x.w.contracts[name])
		if err != nil {
			return nil, err
		}
		st.heaps, st.pc, st.top, st.havocs = ns.heaps, ns.pc, ns.top, ns.havocs
		return vals, nil
	}
	return nil, fmt.Errorf("UNSUPPORTED call to %s (no contract, not inlinable, no trusted model)", name)
}

func (x *Exec) runFuncBind(fn *ssa.Function, args []*Val, bind []*Val, st *State, con *Contract) ([]*Val, *State, error) {
	x.bindStack = append(x.bindStack, bind)
	defer func() { x.bindStack = x.bindStack[:len(x.bindStack)-1] }()
	var invs map[int][]*Val
	if con != nil && len(con.Loops) > 0 {
		var err error
		invs, err = x.prepareInvariants(st, con, args)
		if err != nil {
			return nil, nil, err
		}
	}
	return x.runFunc(fn, args, st, con, invs)
}

// prepareInvariants evaluates the outer functions of loop invariants in the entry state.
func (x *Exec) prepareInvariants(st *State, con *Contract, args []*Val) (map[int][]*Val, error) {
	invs := map[int][]*Val{}
	for ord, ls := range con.Loops {
		for _, f := range ls.Invs {
			clo, err := x.ghostCall(st, f, nil, args)
			if err != nil {
				return nil, err
			}
			invs[ord] = append(invs[ord], clo[0])
		}
	}
	return invs, nil
}

// ghostCall runs a contract/spec function in ghost mode, threading the state (ghost code
// only allocates and writes fresh cells).
func (x *Exec) ghostCall(st *State, fn *ssa.Function, bind []*Val, args []*Val) ([]*Val, error) {
	x.ghost++
	defer func() { x.ghost-- }()
	pc := st.pc
	vals, ns, err := x.runFuncBind(fn, args, bind, st, x.w.contracts[fn.String()])
	if err != nil {
		return nil, fmt.Errorf("in %s: %w", fn.Name(), err)
	}
	st.heaps, st.top, st.havocs = ns.heaps, ns.top, ns.havocs
	st.pc = pc
	return vals, nil
}

// callClosureBool evaluates a boolean contract closure.
func (x *Exec) callClosureBool(st *State, clo *Val, args []*Val, assume bool) (*Term, error) {
	if clo.Fn == nil {
		return nil, fmt.Errorf("contract closure is not static")
	}
	if assume {
		x.assume++
		defer func() { x.assume-- }()
	}
	vals, err := x.ghostCall(st, clo.Fn, clo.Bind, args)
	if err != nil {
		return nil, err
	}
	return vals[0].C[0], nil
}

func (x *Exec) ghostBool(st *State, fn *ssa.Function, args []*Val, assume bool) (*Term, error) {
	if assume {
		x.assume++
		defer func() { x.assume-- }()
	}
	vals, err := x.ghostCall(st, fn, nil, args)
	if err != nil {
		return nil, err
	}
	return vals[0].C[0], nil
}

// collectFrame runs a contract's modifies function and returns the locations it lists.
func (x *Exec) collectFrame(st *State, con *Contract, args []*Val) ([]frameLoc, error) {
	if con.Mod == nil {
		return nil, nil
	}
	save := x.modOut
	x.modOut = &[]frameLoc{}
	defer func() { x.modOut = save }()
	if _, err := x.ghostCall(st, con.Mod, nil, args); err != nil {
		return nil, err
	}
	return *x.modOut, nil
}

func (x *Exec) callByContract(st *State, fn *ssa.Function, con *Contract, args []*Val, pos token.Pos) ([]*Val, error) {
	tb := x.tb
	short := con.Short
	if x.ghost == 0 {
		x.calls["by contract: "+con.Key]++
		x.usedContracts[con.Key] = true
	}
	if con.Trusted {
		x.trusted["trusted contract (body not verified): "+con.Key] = true
	}
	if con.NoFrame && x.ghost == 0 {
		return nil, fmt.Errorf("UNSUPPORTED call by contract to %s: its contract has no frame (noframe)", con.Key)
	}
	// implicit: pointer receiver is non-nil
	if fn.Signature.Recv() != nil && !con.Nilable {
		if _, ok := fn.Signature.Recv().Type().Underlying().(*types.Pointer); ok && len(args) > 0 {
			x.oblige(st, "call", fmt.Sprintf("call.%s.recv-nonnil@%s", short, x.posStr(pos)), pos, tb.Ne(args[0].C[0], tb.BV(64, 0)))
		}
	}
	for k, rf := range con.Reqs {
		g, err := x.ghostBool(st, rf, args, false)
		if err != nil {
			return nil, err
		}
		x.oblige(st, "call", fmt.Sprintf("call.%s.pre.%d@%s", short, k, x.posStr(pos)), pos, g)
	}
	// recursion (inductive lemmas): the callee's measure must be smaller and non-negative
	if fn == x.unitFn && x.ghost == 0 {
		if con.Decr == nil || x.decrEntry == nil {
			return nil, fmt.Errorf("recursive call to %s needs a decreases clause", con.Short)
		}
		v, err := x.ghostCall(st, con.Decr, nil, args)
		if err != nil {
			return nil, err
		}
		x.oblige(st, "call", fmt.Sprintf("call.%s.decreases@%s", short, x.posStr(pos)), pos,
			tb.And(tb.Cmp("bvsle", tb.BV(64, 0), v[0].C[0]), tb.Cmp("bvslt", v[0].C[0], x.decrEntry)))
	}
	// postcondition closures capture the pre-state
	var clos []*Val
	for _, ef := range con.Ens {
		c, err := x.ghostCall(st, ef, nil, args)
		if err != nil {
			return nil, err
		}
		clos = append(clos, c[0])
	}
	locs, err := x.collectFrame(st, con, args)
	if err != nil {
		return nil, err
	}
	// the callee's frame must lie inside ours
	if x.hasFrame && x.ghost == 0 {
		for i, l := range locs {
			g := x.locInFrame(l)
			if !g.IsTrue() {
				x.oblige(st, "frame", fmt.Sprintf("frame.call.%s.%d@%s", short, i, x.posStr(pos)), pos, g)
			}
		}
	}
	// havoc the callee's frame, move the allocation frontier
	if len(locs) > 0 {
		ls := locs
		x.havoc(st, func(name string) bool {
			for _, l := range ls {
				if frameCovers(l, name) {
					return true
				}
			}
			return false
		}, func(name string, key []*Term) *Term {
			c := tb.False
			for _, l := range ls {
				if !frameCovers(l, name) {
					continue
				}
				in := tb.Eq(key[0], l.ref)
				if l.lo != nil && len(key) > 1 {
					in = tb.And(in, tb.Cmp("bvult", tb.Sub(key[1], l.lo), tb.Sub(l.hi, l.lo)))
				}
				c = tb.Or(c, in)
			}
			return c
		})
	}
	abs := x.absCall
	x.absCall = false
	if !con.NoAlloc && !abs {
		x.bumpTop(st)
	}
	// results
	var res []*Val
	rs := fn.Signature.Results()
	for i := 0; i < rs.Len(); i++ {
		hint := "r_" + fn.Name()
		if i < len(con.ResultNames) {
			hint = fn.Name() + "_" + con.ResultNames[i]
		}
		v := x.fresh(rs.At(i).Type(), hint)
		if abs {
			// the result is a function of the arguments
			var flat []*Term
			for _, a := range args {
				flat = append(flat, a.C...)
			}
			cs := flatten(rs.At(i).Type())
			for j, c := range cs {
				v.C[j] = tb.ZExt(c.sort, tb.App(fmt.Sprintf("abs:%s#%d.%d", fn.Name(), i, j), c.hsort(), flat...))
			}
		}
		for _, f := range x.validity(v, x.refOK(st)) {
			x.fact(f)
		}
		res = append(res, v)
	}
	var gs []*Term
	for _, c := range clos {
		g, err := x.callClosureBool(st, c, res, true)
		if err != nil {
			return nil, err
		}
		if g.IsFalse() && os.Getenv("GOCV_DEBUG") != "" {
			fmt.Fprintf(os.Stderr, "DEBUG: ensures of %s folds to false at %s (pc %s)\n", con.Key, x.posStr(pos), x.full(st).Pretty(300))
		}
		x.assumeIn(st, g)
		gs = append(gs, g)
	}
	// definitional postconditions: `result == t` replaces the fresh result by t, and
	// `heap-location == t` for a location this call havocked becomes a store, so that later
	// address arithmetic folds syntactically instead of through solver equalities.
	x.applyDefinitions(st, gs, res)
	return res, nil
}

func conjuncts(t *Term, out []*Term) []*Term {
	if t.Op == "and" {
		for _, a := range t.Args {
			out = conjuncts(a, out)
		}
		return out
	}
	return append(out, t)
}

func mentions(t, v *Term) bool {
	seen := map[int]bool{}
	var rec func(t *Term) bool
	rec = func(t *Term) bool {
		if t == v {
			return true
		}
		if seen[t.id] {
			return false
		}
		seen[t.id] = true
		for _, a := range t.Args {
			if rec(a) {
				return true
			}
		}
		return false
	}
	return rec(t)
}

func (x *Exec) applyDefinitions(st *State, gs []*Term, res []*Val) {
	type slot struct {
		v *Val
		i int
	}
	rv := map[int]slot{}
	for _, r := range res {
		for i, c := range r.C {
			if c.Op == "var" {
				rv[c.id] = slot{r, i}
			}
			if c.Op == "zext" && c.Args[0].Op == "var" {
				rv[c.Args[0].id] = slot{r, i}
			}
		}
	}
	var cs []*Term
	for _, g := range gs {
		cs = conjuncts(g, cs)
	}
	// conditional definitions: (cond => r == t) makes r := ite(cond, t, r); the condition
	// usually is a literal of later path conditions (err == nil), under which the solver
	// front end (RewriteUnder) collapses the ite to t.
	tb := x.tb
	for _, c := range cs {
		if c.Op != "or" {
			continue
		}
		for ai, alt := range c.Args {
			if alt.Op != "and" && alt.Op != "=" {
				continue
			}
			var others []*Term
			for aj, o := range c.Args {
				if aj != ai {
					others = append(others, tb.Not(o))
				}
			}
			cond := tb.And(others...)
			for _, e := range conjuncts(alt, nil) {
				if e.Op != "=" {
					continue
				}
				for k := 0; k < 2; k++ {
					l, r := e.Args[k], e.Args[1-k]
					base := l
					if l.Op == "zext" && l.Args[0].Op == "var" {
						base = l.Args[0]
					}
					if base.Op != "var" {
						continue
					}
					if s, ok := rv[base.id]; ok && s.v.C[s.i] == l && !mentions(r, base) && !mentions(cond, base) {
						s.v.C[s.i] = tb.Ite(cond, r, l)
						break
					}
				}
			}
		}
	}
	for _, c := range cs {
		if c.Op != "=" {
			continue
		}
		for k := 0; k < 2; k++ {
			l, r := c.Args[k], c.Args[1-k]
			if l.Op == "var" {
				if s, ok := rv[l.id]; ok && s.v.C[s.i] == l && !mentions(r, l) {
					s.v.C[s.i] = r
					break
				}
			}
			if l.Op == "uf" && !mentions(r, l) {
				// an application of a base created by the most recent havoc?
				if name, ok := x.freshBaseName[l.Name]; ok {
					if m, ok := st.heaps[name]; ok && len(l.Args) == m.arity {
						cur := m.Select(x, l.Args)
						if cur == l {
							st.heaps[name] = m.Store(x.tb, l.Args, r)
							break
						}
					}
				}
			}
		}
	}
}

// callOpaque: an opaque (recursive) spec function is an uninterpreted function of its
// arguments and of the version of every heap component it reads; each call site adds one
// unfolding of the body (recursive calls inside stay opaque).
func (x *Exec) callOpaque(st *State, fn *ssa.Function, con *Contract, args []*Val, pos token.Pos) ([]*Val, error) {
	tb := x.tb
	if x.unfolding == nil {
		x.unfolding = map[*ssa.Function]int{}
		x.memVer = map[*Mem]uint64{}
	}
	var flat []*Term
	for _, a := range args {
		flat = append(flat, a.C...)
	}
	// versions of the heaps the function reads
	reads := x.w.readPrefixes(fn)
	var names []string
	for name := range st.heaps {
		if prefixWritten(reads, name) {
			names = append(names, name)
		}
	}
	sortStrings(names)
	for _, name := range names {
		m := st.heaps[name]
		if m.kind == mBase && x.bases[name] == m {
			continue // initial version: no token needed (keeps terms small)
		}
		v, ok := x.memVer[m]
		if !ok {
			v = uint64(len(x.memVer) + 1)
			x.memVer[m] = v
		}
		flat = append(flat, tb.BV(64, v))
	}
	// havocs that cover a read heap which has not been materialised yet
	for _, h := range st.havocs {
		for p := range reads {
			if h.covers(p) || h.covers(p+"#ref") || h.covers(p+"$p") {
				if _, ok := st.heaps[p]; !ok {
					flat = append(flat, tb.BV(64, uint64(1)<<32+uint64(h.id)))
				}
				break
			}
		}
	}
	rt := fn.Signature.Results().At(0).Type()
	cs := flatten(rt)
	if len(cs) != 1 {
		return nil, fmt.Errorf("opaque spec function %s must return a scalar", fn.Name())
	}
	key := fmt.Sprintf("sf:%s/%d", fn.Name(), len(flat))
	app := tb.App(key, cs[0].sort, flat...)
	res := &Val{T: rt, C: []*Term{app}}
	depth := 1
	if x.harnessUnroll > 0 {
		depth = x.harnessUnroll // bounded harness: unfold far enough for the bounded lists
	}
	if x.unfolding[fn] < depth {
		x.unfolding[fn]++
		vals, err := func() ([]*Val, error) {
			x.ghost++
			defer func() { x.ghost-- }()
			s2 := st.clone()
			v, _, err := x.runFuncBind(fn, args, nil, s2, nil)
			return v, err
		}()
		x.unfolding[fn]--
		if err != nil {
			return nil, fmt.Errorf("unfolding %s: %w", fn.Name(), err)
		}
		x.fact(tb.Eq(app, vals[0].C[0]))
	}
	return []*Val{res}, nil
}

// locInFrame: location l is covered by the unit's own frame (or is fresh).
func (x *Exec) locInFrame(l frameLoc) *Term {
	tb := x.tb
	g := tb.Cmp("bvult", x.top0, l.ref)
	for _, f := range x.frame {
		if !(f.prefix == l.prefix || frameCovers(f, l.prefix)) {
			continue
		}
		in := tb.Eq(l.ref, f.ref)
		if f.lo != nil {
			if l.lo == nil {
				continue
			}
			// [l.lo, l.hi) within [f.lo, f.hi) or empty
			ln, fn := tb.Sub(l.hi, l.lo), tb.Sub(f.hi, f.lo)
			in = tb.And(in, tb.Or(tb.Eq(ln, tb.BV(64, 0)), tb.And(tb.Cmp("bvule", ln, fn), tb.Cmp("bvule", tb.Sub(l.lo, f.lo), tb.Sub(fn, ln)))))
		}
		g = tb.Or(g, in)
	}
	if l.lo != nil {
		g = tb.Or(g, tb.Eq(l.hi, l.lo))
	}
	return g
}

// ---------------------------------------------------------------------------------------
// builtins

func (x *Exec) builtin(st *State, b *ssa.Builtin, com *ssa.CallCommon, args []*Val, pos token.Pos) (*Val, error) {
	tb := x.tb
	switch b.Name() {
	case "len":
		a := args[0]
		switch com.Args[0].Type().Underlying().(type) {
		case *types.Slice, *types.Basic:
			return x.intVal(a.C[2]), nil
		case *types.Map:
			mt := com.Args[0].Type().Underlying().(*types.Map)
			return x.intVal(x.mapLen(st, mt, a.C[0])), nil
		}
		return nil, fmt.Errorf("UNSUPPORTED len of %s", com.Args[0].Type())
	case "cap":
		return x.intVal(args[0].C[3]), nil
	case "min", "max":
		t := com.Args[0].Type()
		r := args[0].C[0]
		for _, a := range args[1:] {
			var c *Term
			if isSigned(t) {
				c = tb.Cmp("bvslt", a.C[0], r)
			} else {
				c = tb.Cmp("bvult", a.C[0], r)
			}
			if b.Name() == "max" {
				c = tb.Not(tb.Or(c, tb.Eq(a.C[0], r)))
			}
			r = tb.Ite(c, a.C[0], r)
		}
		return &Val{T: t, C: []*Term{r}}, nil
	case "append":
		return x.appendOp(st, com, args, pos)
	case "copy":
		d, s := args[0], args[1]
		et := com.Args[0].Type().Underlying().(*types.Slice).Elem()
		n := tb.Ite(tb.Cmp("bvult", d.C[2], s.C[2]), d.C[2], s.C[2])
		x.checkFrameRange(st, elemPrefix(et), d.C[0], d.C[1], n, pos)
		x.bulkCopy(st, et, d.C[0], d.C[1], n, s.C[0], s.C[1])
		return x.intVal(n), nil
	case "delete":
		return nil, fmt.Errorf("UNSUPPORTED builtin delete")
	case "print", "println":
		return nil, nil
	case "SliceData":
		// unsafe.SliceData(s): the address of s's first element (an interior pointer of the array)
		a := args[0]
		sl := com.Args[0].Type().Underlying().(*types.Slice)
		return &Val{T: types.NewPointer(sl.Elem()), C: []*Term{a.C[0]}, A: &Addr{prefix: elemPrefix(sl.Elem()), keys: []*Term{a.C[0], a.C[1]}}}, nil
	case "String":
		// unsafe.String(p, n): a string viewing the n bytes at p (same array, same offset)
		p, n := args[0], args[1]
		if p.A == nil || len(p.A.keys) != 2 {
			return nil, fmt.Errorf("UNSUPPORTED unsafe.String of a pointer that is not an element address")
		}
		x.trusted["unsafe.String is modelled as a view of the bytes it points to"] = true
		return &Val{T: types.Typ[types.String], C: []*Term{p.A.keys[0], p.A.keys[1], n.C[0]}}, nil
	case "StringData", "Slice":
		return nil, fmt.Errorf("UNSUPPORTED unsafe builtin %s", b.Name())
	}
	return nil, fmt.Errorf("UNSUPPORTED builtin %s", b.Name())
}

func (x *Exec) mapVersion(st *State, mt *types.Map) *Term {
	// a term that changes whenever the map heap changes: use depth of dom heap
	name := "M:" + typeKey(mt) + "#dom"
	m := x.heap(st, name, 2, 0)
	return x.tb.BV(64, uint64(m.depth)) // coarse; len(map) after updates is unconstrained
}

func (x *Exec) checkFrameRange(st *State, prefix string, ref, lo, n *Term, pos token.Pos) {
	if !x.hasFrame || x.ghost > 0 {
		return
	}
	tb := x.tb
	l := frameLoc{prefix: prefix, ref: ref, lo: lo, hi: tb.Add(lo, n)}
	g := x.locInFrame(l)
	if g.IsTrue() {
		return
	}
	x.oblige(st, "frame", fmt.Sprintf("frame@%s", x.posStr(pos)), pos, g)
}

func (x *Exec) appendOp(st *State, com *ssa.CallCommon, args []*Val, pos token.Pos) (*Val, error) {
	tb := x.tb
	s, t := args[0], args[1]
	slT := com.Args[0].Type()
	et := slT.Underlying().(*types.Slice).Elem()
	var n, tRef, tOff *Term
	if isString(com.Args[1].Type()) {
		n, tRef, tOff = t.C[2], t.C[0], t.C[1]
	} else {
		n, tRef, tOff = t.C[2], t.C[0], t.C[1]
	}
	newLen := tb.Add(s.C[2], n)
	fits := tb.Cmp("bvule", newLen, s.C[3])
	// in place
	inPlace := st.clone()
	x.bulkCopy(inPlace, et, s.C[0], tb.Add(s.C[1], s.C[2]), n, tRef, tOff)
	// grow
	grow := st
	r := x.alloc(grow, "grown")
	x.nsym++
	ncap := tb.ZExt(64, tb.Var(fmt.Sprintf("cap!%d", x.nsym), sizeBits))
	// (assumed on this path only: newLen is a term over the inputs)
	notFits := tb.Not(fits)
	x.assumeIn(st, tb.Implies(notFits, tb.Cmp("bvule", newLen, ncap)))
	// Go's growth policy: at most doubling plus rounding to a size class (trusted bound)
	x.assumeIn(st, tb.Implies(notFits, tb.Cmp("bvule", ncap, tb.Add(tb.Bin("bvmul", tb.BV(64, 2), newLen), tb.BV(64, 64)))))
	x.bulkCopy(grow, et, r, tb.BV(64, 0), s.C[2], s.C[0], s.C[1])
	x.bulkCopy(grow, et, r, s.C[2], n, tRef, tOff)
	if x.ghost == 0 {
		// frame: in-place writes land in the backing array beyond len
		save := st.pc
		st.pc = tb.And(save, fits, tb.Ne(n, tb.BV(64, 0)))
		x.checkFrameRange(st, elemPrefix(et), s.C[0], tb.Add(s.C[1], s.C[2]), n, pos)
		st.pc = tb.And(save, tb.Not(fits))
		x.allocObligation(st, pos, ncap, et)
		st.pc = save
	}
	// merge heaps
	for name, gm := range grow.heaps {
		if im, ok := inPlace.heaps[name]; ok && im != gm {
			st.heaps[name] = MemIte(tb, fits, im, gm)
		}
	}
	res := &Val{T: slT, C: []*Term{
		tb.Ite(fits, s.C[0], r),
		tb.Ite(fits, s.C[1], tb.BV(64, 0)),
		newLen,
		tb.Ite(fits, s.C[3], ncap),
	}}
	return res, nil
}

// ---------------------------------------------------------------------------------------
// interface method calls and dynamic calls (by contract only)

func (x *Exec) invoke(st *State, recv *Val, com *ssa.CallCommon, args []*Val, pos token.Pos) ([]*Val, error) {
	tb := x.tb
	it := com.Value.Type()
	// statically known dynamic type: dispatch
	if recv.C[0].IsConst() {
		t := x.w.typeByID(recv.C[0].Val)
		if t != nil {
			ms := x.w.prog.MethodSets.MethodSet(t)
			sel := ms.Lookup(com.Method.Pkg(), com.Method.Name())
			if sel != nil {
				fn := x.w.prog.MethodValue(sel)
				if fn != nil {
					rv := x.unbox(st, recv, t)
					return x.callFn(st, fn, nil, append([]*Val{rv}, args...), pos)
				}
			}
		}
	}
	key := typeKey(it) + "." + com.Method.Name()
	con := x.w.ifaceContracts[key]
	if con == nil {
		// the method may be declared in an interface embedded in (or implied by) the static
		// type: any contract for a method of that name on an interface the static type implements
		for k, c := range x.w.ifaceContracts {
			if !strings.HasSuffix(k, "."+com.Method.Name()) {
				continue
			}
			if ci, ok := c.Fn.Signature.Recv().Type().Underlying().(*types.Interface); ok && types.Implements(it, ci) {
				con = c
				break
			}
		}
	}
	if con == nil {
		return nil, fmt.Errorf("UNSUPPORTED interface method call %s (no interface contract)", key)
	}
	if x.ghost == 0 {
		x.oblige(st, "safe", fmt.Sprintf("safe.nil-iface@%s", x.posStr(pos)), pos, tb.Ne(recv.C[0], tb.BV(32, 0)))
	}
	return x.callByContract(st, con.Fn, con, append([]*Val{recv}, args...), pos)
}

func (x *Exec) dynamicCall(st *State, fv *Val, com *ssa.CallCommon, args []*Val, pos token.Pos) ([]*Val, error) {
	return nil, fmt.Errorf("UNSUPPORTED call through an unknown function value")
}

// ---------------------------------------------------------------------------------------
// intrinsics of the contract language (functions defined in the spec overlay)

type handler func(x *Exec, st *State, fn *ssa.Function, args []*Val, pos token.Pos) ([]*Val, error)

var intrinsics = map[string]handler{}

func init() {
	intrinsics["gocv_assume"] = hAssume
	intrinsics["gocv_assert"] = hAssert
	intrinsics["gocv_mod"] = hMod
	intrinsics["gocv_forall"] = hForall
	intrinsics["gocv_view"] = hView
	intrinsics["gocv_sameArr"] = hSameArr
	intrinsics["byteAt"] = func(x *Exec, st *State, fn *ssa.Function, args []*Val, pos token.Pos) ([]*Val, error) {
		p, i := args[0], args[1].C[0]
		v := x.load(st, &Addr{prefix: elemPrefix(types.Typ[types.Byte]), keys: []*Term{p.C[0], x.tb.Add(p.C[1], i)}}, types.Typ[types.Byte])
		return []*Val{v}, nil
	}
	// gocv_prefixEq(r, b []byte, n int): r[i] == b[i] for 0 <= i < n.  As a goal it is
	// skolemised; as a hypothesis it is realised as a copy layer on the element heap (a no-op
	// on the values, which are equal by assumption, that makes later reads syntactic).
	intrinsics["gocv_prefixEq"] = func(x *Exec, st *State, fn *ssa.Function, args []*Val, pos token.Pos) ([]*Val, error) {
		tb := x.tb
		r, b, n := args[0], args[1], args[2].C[0]
		bt := types.Typ[types.Uint8]
		name := elemPrefix(bt)
		if x.assume > 0 {
			m := x.heap(st, name, 2, 8)
			st.heaps[name] = m.Copy(r.C[0], r.C[1], n, m, b.C[0], b.C[1])
			return []*Val{x.boolVal(tb.True)}, nil
		}
		x.nsym++
		sk := tb.Var(fmt.Sprintf("sk!%d", x.nsym), 64)
		x.skolems = append(x.skolems, sk)
		m := x.heap(st, name, 2, 8)
		eq := tb.Eq(m.Select(x, []*Term{r.C[0], tb.Add(r.C[1], sk)}), m.Select(x, []*Term{b.C[0], tb.Add(b.C[1], sk)}))
		return []*Val{x.boolVal(tb.Implies(tb.And(tb.Cmp("bvsle", tb.BV(64, 0), sk), tb.Cmp("bvslt", sk, n)), eq))}, nil
	}
	// abstract message content: uninterpreted functions of the message identity
	intrinsics["gocv_msgSize"] = func(x *Exec, st *State, fn *ssa.Function, args []*Val, pos token.Pos) ([]*Val, error) {
		m := args[0]
		return []*Val{x.intVal(x.tb.App("msgSize", 64, m.C[0], m.C[1]))}, nil
	}
	intrinsics["gocv_msgByte"] = func(x *Exec, st *State, fn *ssa.Function, args []*Val, pos token.Pos) ([]*Val, error) {
		m, i := args[0], args[1].C[0]
		return []*Val{{T: types.Typ[types.Uint8], C: []*Term{x.tb.App("msgByte", 8, m.C[0], m.C[1], i)}}}, nil
	}
	// ghost record attached to a message identity (fields live in ordinary field heaps)
	intrinsics["gocv_ghostOf"] = func(x *Exec, st *State, fn *ssa.Function, args []*Val, pos token.Pos) ([]*Val, error) {
		m := args[0]
		rt := fn.Signature.Results().At(0).Type()
		et := rt.Underlying().(*types.Pointer).Elem()
		key := x.tb.Bin("bvxor", m.C[1], x.tb.ZExt(64, m.C[0]))
		return []*Val{{T: rt, C: []*Term{x.tb.BV(64, 1)}, A: &Addr{prefix: "X:" + ghostTypeName(et), keys: []*Term{key}}}}, nil
	}
	// ghost record per (message identity, extension descriptor identity)
	intrinsics["gocv_extSlot"] = func(x *Exec, st *State, fn *ssa.Function, args []*Val, pos token.Pos) ([]*Val, error) {
		m, e := args[0], args[1]
		rt := fn.Signature.Results().At(0).Type()
		et := rt.Underlying().(*types.Pointer).Elem()
		mk := x.tb.Bin("bvxor", m.C[1], x.tb.ZExt(64, m.C[0]))
		ek := x.tb.Bin("bvxor", e.C[1], x.tb.ZExt(64, e.C[0]))
		return []*Val{{T: rt, C: []*Term{x.tb.BV(64, 1)}, A: &Addr{prefix: "X:" + ghostTypeName(et), keys: []*Term{mk, ek}}}}, nil
	}
	intrinsics["gocv_sliceRef"] = func(x *Exec, st *State, fn *ssa.Function, args []*Val, pos token.Pos) ([]*Val, error) {
		return []*Val{x.intVal(args[0].C[0])}, nil
	}
	intrinsics["gocv_sliceOff"] = func(x *Exec, st *State, fn *ssa.Function, args []*Val, pos token.Pos) ([]*Val, error) {
		return []*Val{x.intVal(args[0].C[1])}, nil
	}
	// gocv_lastEncoder(): the *csproto.Encoder most recently allocated in this unit (lets a
	// harness observe the write cursor of an inlined MarshalTo)
	intrinsics["gocv_lastEncoder"] = func(x *Exec, st *State, fn *ssa.Function, args []*Val, pos token.Pos) ([]*Val, error) {
		rt := fn.Signature.Results().At(0).Type()
		et := rt.Underlying().(*types.Pointer).Elem()
		r, ok := x.lastAlloc[typeKey(et)]
		if !ok {
			return nil, fmt.Errorf("gocv_lastEncoder: no %s was allocated in this unit", et)
		}
		return []*Val{{T: rt, C: []*Term{r}}}, nil
	}
	// gocv_wellFormed(v any): a value stored in a message field is well formed: an interface
	// holding a pointer (oneof wrapper) does not hold a typed nil pointer.
	intrinsics["gocv_wellFormed"] = func(x *Exec, st *State, fn *ssa.Function, args []*Val, pos token.Pos) ([]*Val, error) {
		tb := x.tb
		v := args[0]
		// the argument arrives as `any`; an interface value converted to any keeps (typ, val)
		return []*Val{x.boolVal(tb.Or(tb.Eq(v.C[0], tb.BV(32, 0)), tb.Ne(v.C[1], tb.BV(64, 0))))}, nil
	}
	intrinsics["gocv_strview"] = func(x *Exec, st *State, fn *ssa.Function, args []*Val, pos token.Pos) ([]*Val, error) {
		tb := x.tb
		b, s := args[0], args[1]
		return []*Val{x.boolVal(tb.And(tb.Eq(b.C[2], s.C[2]), tb.Eq(b.C[3], s.C[2]),
			tb.Or(tb.Eq(s.C[2], tb.BV(64, 0)), tb.And(tb.Eq(b.C[0], s.C[0]), tb.Eq(b.C[1], s.C[1])))))}, nil
	}
	intrinsics["gocv_strAliases"] = func(x *Exec, st *State, fn *ssa.Function, args []*Val, pos token.Pos) ([]*Val, error) {
		tb := x.tb
		s, b := args[0], args[1]
		return []*Val{x.boolVal(tb.And(tb.Ne(s.C[2], tb.BV(64, 0)), tb.Eq(s.C[0], b.C[0])))}, nil
	}
	intrinsics["gocv_fresh"] = hFresh
	intrinsics["gocv_reach"] = hReach
	intrinsics["gocv_wrapped"] = hWrapped
}

func hAssume(x *Exec, st *State, fn *ssa.Function, args []*Val, pos token.Pos) ([]*Val, error) {
	x.assumeIn(st, args[0].C[0])
	// A forall evaluated as an ordinary expression (the argument of gocv_assume is computed
	// before the call) was skolemised, which is the right reading of a goal but only one
	// instance of a hypothesis.  Where such a skolemised formula occurs POSITIVELY in what is
	// assumed, the universally quantified hypothesis it stands for is activated as well.
	if len(x.latent) > 0 {
		seen := map[int]bool{}
		var walk func(t *Term, pos bool)
		walk = func(t *Term, pos bool) {
			if p, ok := x.latent[t.id]; ok && pos && !seen[t.id] {
				seen[t.id] = true
				q := *p
				q.guard = x.full(st)
				x.pend = append(x.pend, &q)
			}
			switch t.Op {
			case "and", "or":
				for _, a := range t.Args {
					walk(a, pos)
				}
			case "not":
				walk(t.Args[0], !pos)
			}
		}
		walk(args[0].C[0], true)
	}
	return nil, nil
}

func hAssert(x *Exec, st *State, fn *ssa.Function, args []*Val, pos token.Pos) ([]*Val, error) {
	name := "assert"
	if len(args) > 1 {
		if s, ok := x.litOf(args[1]); ok {
			name = s
		}
	}
	g := args[0].C[0]
	x.oblige(st, "assert", fmt.Sprintf("assert.%s@%s", name, x.posStr(pos)), pos, g)
	return nil, nil
}

func hReach(x *Exec, st *State, fn *ssa.Function, args []*Val, pos token.Pos) ([]*Val, error) {
	name := "reach"
	if s, ok := x.litOf(args[0]); ok {
		name = s
	}
	if x.ghost > 0 {
		return nil, nil
	}
	o := &Oblig{Name: x.unit + "#reach." + name, Kind: "reach", Func: x.unit, Pos: x.posStr(pos), PC: x.full(st), Goal: x.tb.False, NHyps: len(x.assumes), ExpectSat: true}
	x.obligs = append(x.obligs, o)
	return nil, nil
}

func (x *Exec) litOf(v *Val) (string, bool) {
	if len(v.C) == 3 && v.C[0].IsConst() {
		for s, id := range x.strlits {
			if id == v.C[0].Val {
				return s, true
			}
		}
	}
	return "", false
}

// gocv_mod(locs ...any): each argument is a pointer (the location it addresses, or every
// field of the object it points to) or a slice (its elements).
func hMod(x *Exec, st *State, fn *ssa.Function, args []*Val, pos token.Pos) ([]*Val, error) {
	if x.modOut == nil {
		return nil, nil
	}
	tb := x.tb
	va := args[0] // []any
	if !va.C[2].IsConst() {
		return nil, fmt.Errorf("gocv_mod: variadic length not constant")
	}
	n := int(va.C[2].Val)
	for i := 0; i < n; i++ {
		anyT := va.T.Underlying().(*types.Slice).Elem()
		el := x.load(st, &Addr{prefix: elemPrefix(anyT), keys: []*Term{va.C[0], tb.Add(va.C[1], tb.BV(64, uint64(i)))}}, anyT)
		if !el.C[0].IsConst() {
			return nil, fmt.Errorf("gocv_mod: argument %d has no static type", i)
		}
		t := x.w.typeByID(el.C[0].Val)
		if t == nil {
			return nil, fmt.Errorf("gocv_mod: unknown type id")
		}
		v := x.unbox(st, el, t)
		switch u := t.Underlying().(type) {
		case *types.Pointer:
			a := x.addrOf(v, u.Elem())
			*x.modOut = append(*x.modOut, frameLoc{prefix: a.prefix, ref: a.keys[0], lo: idxLo(a), hi: idxHi(tb, a)})
		case *types.Slice:
			*x.modOut = append(*x.modOut, frameLoc{prefix: elemPrefix(u.Elem()), ref: v.C[0], lo: v.C[1], hi: tb.Add(v.C[1], v.C[2])})
		default:
			return nil, fmt.Errorf("gocv_mod: argument %d is neither pointer nor slice", i)
		}
	}
	return nil, nil
}

func idxLo(a *Addr) *Term {
	if len(a.keys) > 1 {
		return a.keys[1]
	}
	return nil
}
func idxHi(tb *TB, a *Addr) *Term {
	if len(a.keys) > 1 {
		return tb.Add(a.keys[1], tb.BV(64, 1))
	}
	return nil
}

// gocv_forall(lo, hi int, body func(i int) bool) bool
func hForall(x *Exec, st *State, fn *ssa.Function, args []*Val, pos token.Pos) ([]*Val, error) {
	tb := x.tb
	lo, hi, body := args[0].C[0], args[1].C[0], args[2]
	if body.Fn == nil {
		return nil, fmt.Errorf("gocv_forall: body must be a function literal")
	}
	eval := func(i *Term) (*Term, error) {
		iv := &Val{T: types.Typ[types.Int], C: []*Term{i}}
		vals, err := x.ghostCall(st, body.Fn, body.Bind, []*Val{iv})
		if err != nil {
			return nil, err
		}
		return vals[0].C[0], nil
	}
	if lo.IsConst() && hi.IsConst() && sext64(hi.Val, 64)-sext64(lo.Val, 64) <= 64 {
		r := tb.True
		for k := sext64(lo.Val, 64); k < sext64(hi.Val, 64); k++ {
			b, err := eval(tb.BV(64, uint64(k)))
			if err != nil {
				return nil, err
			}
			r = tb.And(r, b)
		}
		return []*Val{x.boolVal(r)}, nil
	}
	inRange := func(i *Term) *Term { return tb.And(tb.Cmp("bvsle", lo, i), tb.Cmp("bvslt", i, hi)) }
	if x.assume > 0 {
		// hypothesis: instantiate later at goal skolems and hints; instantiate now at hints
		p := &pendingForall{guard: x.full(st), lo: lo, hi: hi}
		// the body must be evaluated in the state at assumption time: snapshot
		snap := st.clone()
		p.body = func(i *Term) (*Term, error) {
			iv := &Val{T: types.Typ[types.Int], C: []*Term{i}}
			s2 := snap.clone()
			x.ghost++
			x.assume++
			vals, _, err := x.runFuncBind(body.Fn, []*Val{iv}, body.Bind, s2, nil)
			x.assume--
			x.ghost--
			if err != nil {
				return nil, err
			}
			return tb.Implies(inRange(i), vals[0].C[0]), nil
		}
		x.pend = append(x.pend, p)
		return []*Val{x.boolVal(tb.True)}, nil
	}
	// goal: skolemise
	x.nsym++
	sk := tb.Var(fmt.Sprintf("sk!%d", x.nsym), 64)
	x.skolems = append(x.skolems, sk)
	x.allSkolems = append(x.allSkolems, sk)
	b, err := eval(sk)
	if err != nil {
		return nil, err
	}
	res := tb.Implies(inRange(sk), b)
	if x.ghost <= 1 {
		// remember the quantified reading, in case the result ends up being assumed (hAssume)
		snap := st.clone()
		lp := &pendingForall{lo: lo, hi: hi}
		lp.body = func(i *Term) (*Term, error) {
			iv := &Val{T: types.Typ[types.Int], C: []*Term{i}}
			s2 := snap.clone()
			x.ghost++
			x.assume++
			vals, _, err := x.runFuncBind(body.Fn, []*Val{iv}, body.Bind, s2, nil)
			x.assume--
			x.ghost--
			if err != nil {
				return nil, err
			}
			return tb.Implies(inRange(i), vals[0].C[0]), nil
		}
		if x.latent == nil {
			x.latent = map[int]*pendingForall{}
		}
		x.latent[res.id] = lp
	}
	return []*Val{x.boolVal(res)}, nil
}

// instantiatePending instantiates every pending quantified hypothesis at the skolem
// constants of the goal under construction and at registered hint terms.
func (x *Exec) instantiatePending() []*Term {
	if len(x.pend) == 0 {
		return nil
	}
	var out []*Term
	var terms []*Term
	for _, sk := range x.skolems {
		terms = append(terms, sk, x.tb.Add(sk, x.tb.BV(64, 1)), x.tb.Sub(sk, x.tb.BV(64, 1)))
	}
	terms = append(terms, x.hints...)
	seen := map[int]bool{}
	for _, p := range x.pend {
		for _, t := range terms {
			if seen[t.id*100003+len(out)] {
				continue
			}
			b, err := p.body(t)
			if err != nil {
				x.errs = append(x.errs, "instantiating quantified hypothesis: "+err.Error())
				continue
			}
			out = append(out, x.tb.Implies(p.guard, b))
		}
	}
	return out
}

// gocv_view(b, p []T, lo, hi int) bool: b is exactly the window p[lo:hi] of p's array.
func hView(x *Exec, st *State, fn *ssa.Function, args []*Val, pos token.Pos) ([]*Val, error) {
	tb := x.tb
	b, p, lo, hi := args[0], args[1], args[2].C[0], args[3].C[0]
	r := tb.And(tb.Eq(b.C[2], tb.Sub(hi, lo)), tb.Eq(b.C[0], p.C[0]), tb.Eq(b.C[1], tb.Add(p.C[1], lo)))
	return []*Val{x.boolVal(r)}, nil
}

func hSameArr(x *Exec, st *State, fn *ssa.Function, args []*Val, pos token.Pos) ([]*Val, error) {
	tb := x.tb
	a, b := args[0], args[1]
	return []*Val{x.boolVal(tb.And(tb.Ne(a.C[2], tb.BV(64, 0)), tb.Ne(b.C[2], tb.BV(64, 0)), tb.Eq(a.C[0], b.C[0])))}, nil
}

// gocv_fresh(x): the reference was allocated after the unit's entry (or is nil/empty).
func hFresh(x *Exec, st *State, fn *ssa.Function, args []*Val, pos token.Pos) ([]*Val, error) {
	tb := x.tb
	v := args[0]
	// argument is `any`: unwrap
	if len(v.C) == 2 {
		if b, ok := x.boxes[v.C[1].id]; ok {
			v = b
		} else {
			return []*Val{x.boolVal(tb.Cmp("bvult", x.top0, v.C[1]))}, nil
		}
	}
	return []*Val{x.boolVal(tb.Cmp("bvult", x.top0, v.C[0]))}, nil
}

func hWrapped(x *Exec, st *State, fn *ssa.Function, args []*Val, pos token.Pos) ([]*Val, error) {
	e := args[0]
	w := x.load(st, &Addr{prefix: "X:wrapped", keys: []*Term{e.C[1]}}, e.T)
	return []*Val{w}, nil
}

func hAllocCap(x *Exec, st *State, fn *ssa.Function, args []*Val, pos token.Pos) ([]*Val, error) {
	return nil, nil
}

// ---------------------------------------------------------------------------------------
// trusted models of external functions

var externals = map[string]handler{}

func init() {
	externals["math.Float32bits"] = hIdent
	externals["math.Float64bits"] = hIdent
	externals["math.Float32frombits"] = hIdent
	externals["math.Float64frombits"] = hIdent
	externals["math/bits.Len64"] = func(x *Exec, st *State, fn *ssa.Function, args []*Val, pos token.Pos) ([]*Val, error) {
		return []*Val{x.intVal(x.tb.Len64(args[0].C[0]))}, nil
	}
	externals["fmt.Errorf"] = hErrorf
	externals["sync/atomic.LoadInt32"] = func(x *Exec, st *State, fn *ssa.Function, args []*Val, pos token.Pos) ([]*Val, error) {
		p := args[0]
		x.nonNil(st, p, pos, "atomic load")
		t := types.Typ[types.Int32]
		return []*Val{x.load(st, x.addrOf(p, t), t)}, nil
	}
	externals["sync/atomic.StoreInt32"] = func(x *Exec, st *State, fn *ssa.Function, args []*Val, pos token.Pos) ([]*Val, error) {
		p := args[0]
		x.nonNil(st, p, pos, "atomic store")
		t := types.Typ[types.Int32]
		ad := x.addrOf(p, t)
		x.checkFrame(st, ad, pos)
		v := *args[1]
		v.T = t
		x.store(st, ad, &v)
		return nil, nil
	}
	// strings.Builder (error-message assembly in generated code): its contents are not
	// modelled; writes return arbitrary results, String an arbitrary valid string.
	hFreshResults := func(x *Exec, st *State, fn *ssa.Function, args []*Val, pos token.Pos) ([]*Val, error) {
		if len(args) > 0 {
			x.nonNil(st, args[0], pos, "strings.Builder method")
		}
		var out []*Val
		rs := fn.Signature.Results()
		for i := 0; i < rs.Len(); i++ {
			v := x.fresh(rs.At(i).Type(), "sb_"+fn.Name())
			for _, f := range x.validity(v, x.refOK(st)) {
				x.fact(f)
			}
			out = append(out, v)
		}
		return out, nil
	}
	externals["(*strings.Builder).WriteString"] = hFreshResults
	externals["(*strings.Builder).WriteRune"] = hFreshResults
	externals["(*strings.Builder).WriteByte"] = hFreshResults
	externals["(*strings.Builder).String"] = hFreshResults
	// slices.BinarySearch(s, target) (i, found): what holds of its result whether or not s is
	// sorted (the implementation returns found only after comparing s[i] with target):
	// 0 <= i <= len(s), and found implies i < len(s) && s[i] == target.  Element types of one
	// component (integers) only.
	externals["slices.BinarySearch"] = func(x *Exec, st *State, fn *ssa.Function, args []*Val, pos token.Pos) ([]*Val, error) {
		tb := x.tb
		s, target := args[0], args[1]
		sl, ok := s.T.Underlying().(*types.Slice)
		if !ok || len(target.C) != 1 {
			return nil, fmt.Errorf("UNSUPPORTED slices.BinarySearch instance %s", fn)
		}
		i := x.fresh(types.Typ[types.Int], "bsearch_i")
		found := x.fresh(types.Typ[types.Bool], "bsearch_found")
		x.assumeIn(st, tb.And(tb.Cmp("bvsle", tb.BV(64, 0), i.C[0]), tb.Cmp("bvsle", i.C[0], s.C[2])))
		el := x.load(st, &Addr{prefix: elemPrefix(sl.Elem()), keys: []*Term{s.C[0], tb.Add(s.C[1], i.C[0])}}, sl.Elem())
		x.assumeIn(st, tb.Implies(found.C[0], tb.And(tb.Cmp("bvslt", i.C[0], s.C[2]), tb.Eq(el.C[0], target.C[0]))))
		// a one-element slice is sorted whatever it holds: not found means its element differs
		el0 := x.load(st, &Addr{prefix: elemPrefix(sl.Elem()), keys: []*Term{s.C[0], s.C[1]}}, sl.Elem())
		x.assumeIn(st, tb.Implies(tb.And(tb.Eq(s.C[2], tb.BV(64, 1)), tb.Not(found.C[0])), tb.Ne(el0.C[0], target.C[0])))
		return []*Val{i, found}, nil
	}
	externals["errors.New"] = func(x *Exec, st *State, fn *ssa.Function, args []*Val, pos token.Pos) ([]*Val, error) {
		r := x.alloc(st, "err")
		return []*Val{{T: fn.Signature.Results().At(0).Type(), C: []*Term{x.tb.BV(32, x.w.namedTypeID("*errors.errorString")), r}}}, nil
	}
}

func hIdent(x *Exec, st *State, fn *ssa.Function, args []*Val, pos token.Pos) ([]*Val, error) {
	return []*Val{{T: fn.Signature.Results().At(0).Type(), C: args[0].C}}, nil
}

// fmt.Errorf: a fresh non-nil error; if an argument is an error it is recorded as wrapped
// (the formats in scope use %w for every error argument; listed in the trusted base).
func hErrorf(x *Exec, st *State, fn *ssa.Function, args []*Val, pos token.Pos) ([]*Val, error) {
	tb := x.tb
	r := x.alloc(st, "errorf")
	et := fn.Signature.Results().At(0).Type()
	res := &Val{T: et, C: []*Term{tb.BV(32, x.w.namedTypeID("*fmt.wrapError")), r}}
	va := args[1]
	wrapped := x.zero(et)
	if va.C[2].IsConst() {
		errIface := types.Universe.Lookup("error").Type()
		for i := 0; i < int(va.C[2].Val); i++ {
			anyT := va.T.Underlying().(*types.Slice).Elem()
			el := x.load(st, &Addr{prefix: elemPrefix(anyT), keys: []*Term{va.C[0], tb.Add(va.C[1], tb.BV(64, uint64(i)))}}, anyT)
			isErr := x.implements(el.C[0], errIface)
			if isErr.IsTrue() || !el.C[0].IsConst() && x.boxedErr[el.C[1].id] {
				wrapped = &Val{T: et, C: el.C}
			} else if !isErr.IsFalse() {
				m, err := x.mergeVal(tb.And(tb.Ne(el.C[0], tb.BV(32, 0)), isErr), &Val{T: et, C: el.C}, wrapped)
				if err == nil {
					wrapped = m
				}
			}
		}
	}
	x.store(st, &Addr{prefix: "X:wrapped", keys: []*Term{r}}, wrapped)
	return []*Val{res}, nil
}

func sortStrings(s []string) { sort.Strings(s) }

func trimPkg(s string) string {
	if i := strings.LastIndex(s, "/"); i >= 0 {
		return s[i+1:]
	}
	return s
}

// calleeWrites adds the heap prefixes a call may write (from the callee's modifies clause,
// or by scanning an inlinable body).
func (x *Exec) calleeWrites(in ssa.CallInstruction, w map[string]bool) {
	com := in.Common()
	if b, ok := com.Value.(*ssa.Builtin); ok {
		switch b.Name() {
		case "append", "copy":
			if sl, ok := com.Args[0].Type().Underlying().(*types.Slice); ok {
				w[elemPrefix(sl.Elem())] = true
			}
		}
		return
	}
	if com.IsInvoke() {
		w["*"] = true
		return
	}
	fn := com.StaticCallee()
	if fn == nil {
		w["*"] = true
		return
	}
	x.fnWrites(fn, w, map[*ssa.Function]bool{})
}

func (x *Exec) fnWrites(fn *ssa.Function, w map[string]bool, seen map[*ssa.Function]bool) {
	if seen[fn] {
		return
	}
	seen[fn] = true
	name := fn.String()
	if _, ok := x.w.intrinsic(fn); ok {
		return
	}
	if con := x.w.contracts[name]; con != nil && !con.Inline {
		if con.ModText == "" {
			return
		}
		// static over-approximation from the text of the modifies clause is not available:
		// scan the generated modifies function's address computations
		for _, b := range con.Mod.Blocks {
			for _, instr := range b.Instrs {
				if c, ok := instr.(*ssa.Call); ok {
					if f := c.Common().StaticCallee(); f != nil && f.Name() == "gocv_mod" {
						// arguments were stored into the varargs array as interfaces
						continue
					}
				}
				if mi, ok := instr.(*ssa.MakeInterface); ok {
					switch t := mi.X.Type().Underlying().(type) {
					case *types.Pointer:
						for _, p := range storePrefixes(mi.X) {
							w[p] = true
						}
						_ = t
					case *types.Slice:
						w[elemPrefix(t.Elem())] = true
					}
				}
			}
		}
		return
	}
	if _, ok := externals[name]; ok {
		return
	}
	if fn.Blocks == nil {
		w["*"] = true
		return
	}
	blocks := map[*ssa.BasicBlock]bool{}
	for _, b := range fn.Blocks {
		blocks[b] = true
	}
	for b := range blocks {
		for _, instr := range b.Instrs {
			switch in := instr.(type) {
			case *ssa.Store:
				for _, p := range storePrefixes(in.Addr) {
					w[p] = true
				}
			case *ssa.MapUpdate:
				w["M:"+typeKey(in.Map.Type().Underlying())] = true
			case ssa.CallInstruction:
				com := in.Common()
				if _, ok := com.Value.(*ssa.Builtin); ok || com.IsInvoke() || com.StaticCallee() == nil {
					x.calleeWrites(in, w)
				} else {
					x.fnWrites(com.StaticCallee(), w, seen)
				}
			}
		}
	}
}

// ghostTypeName: ghost record types come from the spec library, which is overlaid on every
// loaded package; the copies denote one ghost heap, so the package is dropped from the name.
func ghostTypeName(t types.Type) string {
	if n, ok := t.(*types.Named); ok {
		return "ghost." + n.Obj().Name()
	}
	return typeKey(t)
}
