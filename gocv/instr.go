package main

// Semantics of the individual go/ssa instructions.

import (
	"fmt"
	"go/constant"
	"go/token"
	"go/types"
	"math"

	"golang.org/x/tools/go/ssa"
)

const strLitBase = uint64(1) << 63

func (x *Exec) operand(st *State, v ssa.Value) (*Val, error) {
	switch c := v.(type) {
	case *ssa.Const:
		return x.constVal(c)
	case *ssa.Function:
		return &Val{T: c.Type(), C: []*Term{x.tb.BV(64, x.w.funcID(c))}, Fn: c}, nil
	case *ssa.Global:
		return x.globalAddr(c), nil
	case *ssa.Builtin:
		return nil, fmt.Errorf("builtin %s used as value", c.Name())
	}
	if r, ok := st.env[v]; ok && r != nil {
		return r, nil
	}
	return nil, fmt.Errorf("undefined SSA value %s (%T) in %s", v.Name(), v, v.Parent())
}

func (x *Exec) globalAddr(g *ssa.Global) *Val {
	name := "G:" + g.Pkg.Pkg.Path() + "." + g.Name()
	return &Val{T: g.Type(), C: []*Term{x.tb.BV(64, 1)}, A: &Addr{prefix: name, keys: []*Term{x.tb.BV(64, 0)}}}
}

func (x *Exec) constVal(c *ssa.Const) (*Val, error) {
	tb := x.tb
	t := c.Type()
	if c.Value == nil { // zero value / nil
		if _, ok := t.Underlying().(*types.Tuple); ok {
			return nil, fmt.Errorf("tuple const")
		}
		return x.zero(t), nil
	}
	switch u := t.Underlying().(type) {
	case *types.Basic:
		switch {
		case u.Info()&types.IsBoolean != 0:
			return &Val{T: t, C: []*Term{tb.Bool(constant.BoolVal(c.Value))}}, nil
		case u.Info()&types.IsString != 0:
			s := constant.StringVal(c.Value)
			return x.strLit(t, s), nil
		case u.Info()&types.IsInteger != 0:
			n := basicBits(u)
			if i, ok := constant.Int64Val(constant.ToInt(c.Value)); ok {
				return &Val{T: t, C: []*Term{tb.BV(n, uint64(i))}}, nil
			}
			if i, ok := constant.Uint64Val(constant.ToInt(c.Value)); ok {
				return &Val{T: t, C: []*Term{tb.BV(n, i)}}, nil
			}
			return nil, fmt.Errorf("integer constant out of range: %s", c)
		case u.Info()&types.IsFloat != 0:
			f, _ := constant.Float64Val(c.Value)
			if basicBits(u) == 32 {
				return &Val{T: t, C: []*Term{tb.BV(32, uint64(math.Float32bits(float32(f))))}}, nil
			}
			return &Val{T: t, C: []*Term{tb.BV(64, math.Float64bits(f))}}, nil
		}
	}
	return nil, fmt.Errorf("unsupported constant %s of type %s", c, t)
}

func (x *Exec) strLit(t types.Type, s string) *Val {
	tb := x.tb
	if len(s) == 0 {
		return x.zero(t)
	}
	id, ok := x.strlits[s]
	if !ok {
		id = strLitBase + uint64(len(x.strlits)+1)*(1<<24)
		x.strlits[s] = id
	}
	return &Val{T: t, C: []*Term{tb.BV(64, id), tb.BV(64, 0), tb.BV(64, uint64(len(s)))}}
}

func (x *Exec) boolVal(b *Term) *Val { return &Val{T: types.Typ[types.Bool], C: []*Term{b}} }
func (x *Exec) intVal(b *Term) *Val  { return &Val{T: types.Typ[types.Int], C: []*Term{b}} }

// nonNil emits the nil-dereference obligation for pointer p.
func (x *Exec) nonNil(st *State, p *Val, pos token.Pos, what string) {
	if p.A != nil && p.A.prefix[0] != 'F' && p.A.prefix[0] != 'C' {
		return
	}
	if x.ghost > 0 {
		return
	}
	g := x.tb.Ne(p.C[0], x.tb.BV(64, 0))
	if g.IsTrue() {
		return
	}
	x.oblige(st, "safe", fmt.Sprintf("safe.nil@%s", x.posStr(pos)), pos, g)
}

func (x *Exec) step(fr *frameRun, st *State, instr ssa.Instruction) error {
	tb := x.tb
	switch in := instr.(type) {
	case *ssa.DebugRef:
		return nil
	case *ssa.Alloc:
		et := in.Type().Underlying().(*types.Pointer).Elem()
		r := x.alloc(st, "alloc_"+in.Comment)
		p := &Val{T: in.Type(), C: []*Term{r}}
		if x.lastAlloc == nil {
			x.lastAlloc = map[string]*Term{}
		}
		x.lastAlloc[typeKey(et)] = r
		if at, ok := et.Underlying().(*types.Array); ok {
			// arrays behind pointers live in the element heaps (so they can be sliced)
			x.zeroElems(st, at.Elem(), r)
			st.env[in] = p
			return nil
		}
		// zero-initialise
		x.store(st, x.addrOf(p, et), x.zero(et))
		st.env[in] = p
		return nil
	case *ssa.BinOp:
		a, err := x.operand(st, in.X)
		if err != nil {
			return err
		}
		b, err := x.operand(st, in.Y)
		if err != nil {
			return err
		}
		v, err := x.binop(st, in, a, b)
		if err != nil {
			return err
		}
		st.env[in] = v
		return nil
	case *ssa.UnOp:
		a, err := x.operand(st, in.X)
		if err != nil {
			return err
		}
		switch in.Op {
		case token.NOT:
			st.env[in] = x.boolVal(tb.Not(a.C[0]))
		case token.SUB:
			if isFloat(in.Type()) {
				n := a.C[0].Sort
				st.env[in] = &Val{T: in.Type(), C: []*Term{tb.Bin("bvxor", a.C[0], tb.BV(n, uint64(1)<<uint(n-1)))}}
			} else {
				st.env[in] = &Val{T: in.Type(), C: []*Term{tb.Neg(a.C[0])}}
			}
		case token.XOR:
			st.env[in] = &Val{T: in.Type(), C: []*Term{tb.BVNot(a.C[0])}}
		case token.MUL: // load
			pt := in.X.Type().Underlying().(*types.Pointer).Elem()
			if g, ok := in.X.(*ssa.Global); ok {
				if v := x.knownGlobal(g); v != nil {
					st.env[in] = v
					return nil
				}
			}
			x.nonNil(st, a, in.Pos(), "load")
			st.env[in] = x.load(st, x.addrOf(a, pt), pt)
		case token.ARROW:
			return fmt.Errorf("UNSUPPORTED channel receive")
		default:
			return fmt.Errorf("unsupported unop %s", in.Op)
		}
		return nil
	case *ssa.Store:
		a, err := x.operand(st, in.Addr)
		if err != nil {
			return err
		}
		v, err := x.operand(st, in.Val)
		if err != nil {
			return err
		}
		pt := in.Addr.Type().Underlying().(*types.Pointer).Elem()
		x.nonNil(st, a, in.Pos(), "store")
		ad := x.addrOf(a, pt)
		x.checkFrame(st, ad, in.Pos())
		vv := *v
		vv.T = pt
		x.store(st, ad, &vv)
		return nil
	case *ssa.FieldAddr:
		p, err := x.operand(st, in.X)
		if err != nil {
			return err
		}
		stT := in.X.Type().Underlying().(*types.Pointer).Elem()
		f := stT.Underlying().(*types.Struct).Field(in.Field)
		x.nonNil(st, p, in.Pos(), "field")
		base := x.addrOf(p, stT)
		st.env[in] = &Val{T: in.Type(), C: p.C, A: &Addr{prefix: base.prefix + "." + f.Name(), keys: base.keys}}
		return nil
	case *ssa.Field:
		s, err := x.operand(st, in.X)
		if err != nil {
			return err
		}
		st.env[in] = x.fieldOf(s, in.Field)
		return nil
	case *ssa.IndexAddr:
		s, err := x.operand(st, in.X)
		if err != nil {
			return err
		}
		i, err := x.operand(st, in.Index)
		if err != nil {
			return err
		}
		idx := x.toInt64(i, in.Index.Type())
		switch t := in.X.Type().Underlying().(type) {
		case *types.Slice:
			if x.ghost == 0 {
				x.oblige(st, "safe", fmt.Sprintf("safe.index@%s", x.posStr(in.Pos())), in.Pos(), tb.Cmp("bvult", idx, s.C[2]))
				// trigger: quantified hypotheses (forall i ... s[i] ...) are instantiated at
				// every index the code itself reads or writes
				if len(x.pend) > 0 && len(x.hints) < 64 {
					dup := false
					for _, h := range x.hints {
						if h == idx {
							dup = true
						}
					}
					if !dup {
						x.hints = append(x.hints, idx)
					}
				}
			}
			st.env[in] = &Val{T: in.Type(), C: []*Term{s.C[0]}, A: &Addr{prefix: elemPrefix(t.Elem()), keys: []*Term{s.C[0], tb.Add(s.C[1], idx)}}}
		case *types.Pointer:
			at := t.Elem().Underlying().(*types.Array)
			if !idx.IsConst() {
				return fmt.Errorf("UNSUPPORTED symbolic index into array")
			}
			if idx.Val >= uint64(at.Len()) {
				return fmt.Errorf("constant array index out of range")
			}
			x.nonNil(st, s, in.Pos(), "index")
			if s.A != nil {
				return fmt.Errorf("UNSUPPORTED index into array inside a struct")
			}
			st.env[in] = &Val{T: in.Type(), C: s.C, A: &Addr{prefix: elemPrefix(at.Elem()), keys: []*Term{s.C[0], idx}}}
		default:
			return fmt.Errorf("unsupported IndexAddr on %s", in.X.Type())
		}
		return nil
	case *ssa.Index:
		s, err := x.operand(st, in.X)
		if err != nil {
			return err
		}
		i, err := x.operand(st, in.Index)
		if err != nil {
			return err
		}
		idx := x.toInt64(i, in.Index.Type())
		if isString(in.X.Type()) {
			if x.ghost == 0 {
				x.oblige(st, "safe", fmt.Sprintf("safe.index@%s", x.posStr(in.Pos())), in.Pos(), tb.Cmp("bvult", idx, s.C[2]))
			}
			st.env[in] = x.load(st, &Addr{prefix: elemPrefix(types.Typ[types.Byte]), keys: []*Term{s.C[0], tb.Add(s.C[1], idx)}}, types.Typ[types.Byte])
			st.env[in].T = in.Type()
			return nil
		}
		return fmt.Errorf("unsupported Index on %s", in.X.Type())
	case *ssa.Slice:
		return x.sliceOp(st, in)
	case *ssa.Phi:
		return fmt.Errorf("phi outside block head")
	case *ssa.Convert:
		a, err := x.operand(st, in.X)
		if err != nil {
			return err
		}
		v, err := x.convert(st, a, in.X.Type(), in.Type())
		if err != nil {
			return err
		}
		st.env[in] = v
		return nil
	case *ssa.ChangeType:
		a, err := x.operand(st, in.X)
		if err != nil {
			return err
		}
		c := *a
		c.T = in.Type()
		st.env[in] = &c
		return nil
	case *ssa.MakeInterface:
		a, err := x.operand(st, in.X)
		if err != nil {
			return err
		}
		st.env[in] = x.makeIface(st, a, in.X.Type(), in.Type())
		return nil
	case *ssa.ChangeInterface:
		a, err := x.operand(st, in.X)
		if err != nil {
			return err
		}
		c := *a
		c.T = in.Type()
		st.env[in] = &c
		return nil
	case *ssa.TypeAssert:
		return x.typeAssert(st, in)
	case *ssa.Extract:
		t, err := x.operand(st, in.Tuple)
		if err != nil {
			return err
		}
		if t.Tup == nil || in.Index >= len(t.Tup) {
			return fmt.Errorf("extract from non-tuple")
		}
		st.env[in] = t.Tup[in.Index]
		return nil
	case *ssa.MakeSlice:
		return x.makeSlice(st, in)
	case *ssa.MakeClosure:
		fn := in.Fn.(*ssa.Function)
		v := &Val{T: in.Type(), C: []*Term{tb.BV(64, x.w.funcID(fn))}, Fn: fn}
		for _, b := range in.Bindings {
			bv, err := x.operand(st, b)
			if err != nil {
				return err
			}
			v.Bind = append(v.Bind, bv)
		}
		st.env[in] = v
		return nil
	case *ssa.Call:
		return x.call(fr, st, in)
	case *ssa.Defer:
		return fmt.Errorf("UNSUPPORTED defer")
	case *ssa.RunDefers:
		return nil
	case *ssa.Go, *ssa.Send, *ssa.Select:
		return fmt.Errorf("UNSUPPORTED concurrency instruction %T", in)
	case *ssa.MakeMap:
		r := x.alloc(st, "map")
		st.env[in] = &Val{T: in.Type(), C: []*Term{r}}
		// empty map: domain false everywhere for this ref
		mt := in.Type().Underlying().(*types.Map)
		x.mapClear(st, mt, r)
		return nil
	case *ssa.MapUpdate:
		return x.mapUpdate(st, in)
	case *ssa.Lookup:
		return x.lookup(st, in)
	case *ssa.Range:
		return x.rangeStart(st, in)
	case *ssa.Next:
		return x.rangeNext(fr, st, in)
	}
	return fmt.Errorf("UNSUPPORTED instruction %T", instr)
}

func (x *Exec) fieldOf(s *Val, field int) *Val {
	stT := s.T.Underlying().(*types.Struct)
	off := 0
	for i := 0; i < field; i++ {
		off += len(flatten(stT.Field(i).Type()))
	}
	ft := stT.Field(field).Type()
	n := len(flatten(ft))
	return &Val{T: ft, C: s.C[off : off+n]}
}

// toInt64 widens an index/length operand to 64 bits according to its signedness.
func (x *Exec) toInt64(v *Val, t types.Type) *Term {
	c := v.C[0]
	if c.Sort == 64 {
		return c
	}
	if isSigned(t) {
		return x.tb.SExt(64, c)
	}
	return x.tb.ZExt(64, c)
}

func (x *Exec) binop(st *State, in *ssa.BinOp, a, b *Val) (*Val, error) {
	tb := x.tb
	t := in.X.Type()
	rt := in.Type()
	switch in.Op {
	case token.EQL, token.NEQ:
		e, err := x.equal(st, a, b, t)
		if err != nil {
			return nil, err
		}
		if in.Op == token.NEQ {
			e = tb.Not(e)
		}
		return x.boolVal(e), nil
	}
	if isString(t) {
		if in.Op == token.ADD {
			return nil, fmt.Errorf("UNSUPPORTED string concatenation")
		}
		return nil, fmt.Errorf("UNSUPPORTED string comparison %s", in.Op)
	}
	if isFloat(t) {
		return nil, fmt.Errorf("UNSUPPORTED floating-point arithmetic %s", in.Op)
	}
	if bt, ok := t.Underlying().(*types.Basic); ok && bt.Info()&types.IsBoolean != 0 {
		switch in.Op {
		case token.AND, token.LAND:
			return x.boolVal(tb.And(a.C[0], b.C[0])), nil
		case token.OR, token.LOR:
			return x.boolVal(tb.Or(a.C[0], b.C[0])), nil
		}
	}
	sg := isSigned(t)
	x0, y0 := a.C[0], b.C[0]
	cmp := func(u, s string) *Val {
		if sg {
			return x.boolVal(tb.Cmp(s, x0, y0))
		}
		return x.boolVal(tb.Cmp(u, x0, y0))
	}
	switch in.Op {
	case token.LSS:
		return cmp("bvult", "bvslt"), nil
	case token.LEQ:
		return cmp("bvule", "bvsle"), nil
	case token.GTR:
		return cmp("bvugt", "bvsgt"), nil
	case token.GEQ:
		return cmp("bvuge", "bvsge"), nil
	case token.ADD:
		return &Val{T: rt, C: []*Term{tb.Add(x0, y0)}}, nil
	case token.SUB:
		return &Val{T: rt, C: []*Term{tb.Sub(x0, y0)}}, nil
	case token.MUL:
		return &Val{T: rt, C: []*Term{tb.Bin("bvmul", x0, y0)}}, nil
	case token.AND:
		return &Val{T: rt, C: []*Term{tb.Bin("bvand", x0, y0)}}, nil
	case token.OR:
		return &Val{T: rt, C: []*Term{tb.Bin("bvor", x0, y0)}}, nil
	case token.XOR:
		return &Val{T: rt, C: []*Term{tb.Bin("bvxor", x0, y0)}}, nil
	case token.AND_NOT:
		return &Val{T: rt, C: []*Term{tb.Bin("bvand", x0, tb.BVNot(y0))}}, nil
	case token.QUO, token.REM:
		if x.ghost == 0 {
			x.oblige(st, "safe", fmt.Sprintf("safe.div@%s", x.posStr(in.Pos())), in.Pos(), tb.Ne(y0, tb.BV(y0.Sort, 0)))
		}
		op := "bvudiv"
		if in.Op == token.REM {
			op = "bvurem"
		}
		if sg {
			op = "bvsdiv"
			if in.Op == token.REM {
				op = "bvsrem"
			}
		}
		return &Val{T: rt, C: []*Term{tb.Bin(op, x0, y0)}}, nil
	case token.SHL, token.SHR:
		// shift count: any integer type; widen/clamp to the operand width
		n := x0.Sort
		cnt := y0
		ysg := isSigned(in.Y.Type())
		if ysg && x.ghost == 0 {
			x.oblige(st, "safe", fmt.Sprintf("safe.shift@%s", x.posStr(in.Pos())), in.Pos(), tb.Cmp("bvsle", tb.BV(cnt.Sort, 0), cnt))
		}
		var big *Term // count >= n
		if cnt.Sort > n {
			big = tb.Cmp("bvuge", cnt, tb.BV(cnt.Sort, uint64(n)))
			cnt = tb.Extract(n-1, 0, cnt)
		} else {
			cnt = tb.ZExt(n, cnt)
			big = tb.Cmp("bvuge", cnt, tb.BV(n, uint64(n)))
		}
		var r *Term
		if in.Op == token.SHL {
			r = tb.Ite(big, tb.BV(n, 0), tb.Bin("bvshl", x0, cnt))
		} else if sg {
			r = tb.Ite(big, tb.Bin("bvashr", x0, tb.BV(n, uint64(n-1))), tb.Bin("bvashr", x0, cnt))
		} else {
			r = tb.Ite(big, tb.BV(n, 0), tb.Bin("bvlshr", x0, cnt))
		}
		return &Val{T: rt, C: []*Term{r}}, nil
	}
	return nil, fmt.Errorf("unsupported binop %s on %s", in.Op, t)
}

// equal implements Go's == for the supported types.
func (x *Exec) equal(st *State, a, b *Val, t types.Type) (*Term, error) {
	tb := x.tb
	switch u := t.Underlying().(type) {
	case *types.Basic:
		if u.Info()&types.IsString != 0 {
			return x.stringEq(st, a, b), nil
		}
		if u.Info()&types.IsFloat != 0 {
			// only comparisons against (positive or negative) zero are supported exactly
			n := a.C[0].Sort
			absMask := tb.BV(n, mask(n-1))
			isZero := func(v *Term) bool { return v.IsConst() && v.Val&mask(n-1) == 0 }
			if isZero(b.C[0]) {
				return tb.Eq(tb.Bin("bvand", a.C[0], absMask), tb.BV(n, 0)), nil
			}
			if isZero(a.C[0]) {
				return tb.Eq(tb.Bin("bvand", b.C[0], absMask), tb.BV(n, 0)), nil
			}
			return nil, fmt.Errorf("UNSUPPORTED float comparison with non-zero")
		}
		return tb.Eq(a.C[0], b.C[0]), nil
	case *types.Pointer, *types.Map, *types.Chan, *types.Signature:
		if a.A != nil || b.A != nil {
			if isZeroRef(a) || isZeroRef(b) {
				return tb.False, nil // interior addresses are never nil
			}
			return nil, fmt.Errorf("UNSUPPORTED comparison of interior pointers")
		}
		return tb.Eq(a.C[0], b.C[0]), nil
	case *types.Slice:
		// only comparison with nil is legal
		if isNilSlice(a) {
			return tb.Eq(b.C[0], tb.BV(64, 0)), nil
		}
		return tb.Eq(a.C[0], tb.BV(64, 0)), nil
	case *types.Interface:
		// both interfaces; or one side concrete wrapped earlier by MakeInterface
		if len(a.C) == 2 && len(b.C) == 2 {
			// nil comparison or identity of (type, pointer) pairs; for boxed non-pointer values
			// identity of the box is NOT Go equality, so restrict to nil and pointer-like dynamic types
			if (a.C[0].IsConst() && a.C[0].Val == 0) || (b.C[0].IsConst() && b.C[0].Val == 0) {
				return tb.Eq(a.C[0], b.C[0]), nil
			}
			// two nil interfaces are equal whatever their (meaningless) data words hold
			return tb.And(tb.Eq(a.C[0], b.C[0]), tb.Or(tb.Eq(a.C[0], tb.BV(32, 0)), tb.Eq(a.C[1], b.C[1]))), nil
		}
	case *types.Struct:
		c := tb.True
		off := 0
		for i := 0; i < u.NumFields(); i++ {
			ft := u.Field(i).Type()
			n := len(flatten(ft))
			e, err := x.equal(st, &Val{T: ft, C: a.C[off : off+n]}, &Val{T: ft, C: b.C[off : off+n]}, ft)
			if err != nil {
				return nil, err
			}
			c = tb.And(c, e)
			off += n
		}
		return c, nil
	}
	return nil, fmt.Errorf("UNSUPPORTED equality on %s", t)
}

func isNilSlice(v *Val) bool {
	return len(v.C) == 4 && v.C[0].IsConst() && v.C[0].Val == 0
}

// stringEq: equal length and equal bytes.  Exact when one side is a short literal or
// empty; otherwise an uninterpreted content-equality predicate over the two views
// (strings are immutable, so the predicate is a function of its arguments).
func (x *Exec) stringEq(st *State, a, b *Val) *Term {
	tb := x.tb
	if a.C[2].IsConst() && a.C[2].Val == 0 {
		return tb.Eq(b.C[2], tb.BV(64, 0))
	}
	if b.C[2].IsConst() && b.C[2].Val == 0 {
		return tb.Eq(a.C[2], tb.BV(64, 0))
	}
	lit := func(v *Val) (string, bool) {
		if v.C[0].IsConst() && v.C[0].Val >= strLitBase {
			for s, id := range x.strlits {
				if id == v.C[0].Val && v.C[1].IsConst() && v.C[1].Val == 0 && v.C[2].IsConst() && v.C[2].Val == uint64(len(s)) {
					return s, true
				}
			}
		}
		return "", false
	}
	cmpLit := func(s string, o *Val) *Term {
		c := tb.Eq(o.C[2], tb.BV(64, uint64(len(s))))
		if len(s) > 64 {
			return tb.And(c, tb.App("streq_long", 0, o.C[0], o.C[1], tb.BV(64, x.strlits[s])))
		}
		m := x.heap(st, elemPrefix(types.Typ[types.Byte]), 2, 8)
		for i := 0; i < len(s); i++ {
			c = tb.And(c, tb.Eq(x.strByte(st, m, o, uint64(i)), tb.BV(8, uint64(s[i]))))
		}
		return c
	}
	if s, ok := lit(a); ok {
		if s2, ok2 := lit(b); ok2 {
			return tb.Bool(s == s2)
		}
		return cmpLit(s, b)
	}
	if s, ok := lit(b); ok {
		return cmpLit(s, a)
	}
	same := tb.And(tb.Eq(a.C[0], b.C[0]), tb.Eq(a.C[1], b.C[1]), tb.Eq(a.C[2], b.C[2]))
	return tb.Or(same, tb.And(tb.Eq(a.C[2], b.C[2]), tb.App("streq", 0, a.C[0], a.C[1], b.C[0], b.C[1], a.C[2])))
}

func (x *Exec) strByte(st *State, m *Mem, s *Val, i uint64) *Term {
	tb := x.tb
	if s.C[0].IsConst() && s.C[0].Val >= strLitBase && s.C[1].IsConst() {
		for lit, id := range x.strlits {
			if id == s.C[0].Val {
				k := s.C[1].Val + i
				if k < uint64(len(lit)) {
					return tb.BV(8, uint64(lit[k]))
				}
			}
		}
	}
	return m.Select(x, []*Term{s.C[0], tb.Add(s.C[1], tb.BV(64, i))})
}

func (x *Exec) sliceOp(st *State, in *ssa.Slice) error {
	tb := x.tb
	s, err := x.operand(st, in.X)
	if err != nil {
		return err
	}
	get := func(v ssa.Value) (*Term, error) {
		if v == nil {
			return nil, nil
		}
		o, err := x.operand(st, v)
		if err != nil {
			return nil, err
		}
		return x.toInt64(o, v.Type()), nil
	}
	lo, err := get(in.Low)
	if err != nil {
		return err
	}
	hi, err := get(in.High)
	if err != nil {
		return err
	}
	mx, err := get(in.Max)
	if err != nil {
		return err
	}
	if lo == nil {
		lo = tb.BV(64, 0)
	}
	switch t := in.X.Type().Underlying().(type) {
	case *types.Slice:
		if hi == nil {
			hi = s.C[2]
		}
		capT := s.C[3]
		if x.ghost == 0 {
			var g *Term
			if mx != nil {
				g = tb.And(tb.Cmp("bvule", lo, hi), tb.Cmp("bvule", hi, mx), tb.Cmp("bvule", mx, capT))
			} else {
				g = tb.And(tb.Cmp("bvule", lo, hi), tb.Cmp("bvule", hi, capT))
			}
			x.oblige(st, "safe", fmt.Sprintf("safe.slice@%s", x.posStr(in.Pos())), in.Pos(), g)
		}
		ncap := tb.Sub(capT, lo)
		if mx != nil {
			ncap = tb.Sub(mx, lo)
		}
		st.env[in] = &Val{T: in.Type(), C: []*Term{s.C[0], tb.Add(s.C[1], lo), tb.Sub(hi, lo), ncap}}
		return nil
	case *types.Basic: // string
		if hi == nil {
			hi = s.C[2]
		}
		if x.ghost == 0 {
			x.oblige(st, "safe", fmt.Sprintf("safe.slice@%s", x.posStr(in.Pos())), in.Pos(), tb.And(tb.Cmp("bvule", lo, hi), tb.Cmp("bvule", hi, s.C[2])))
		}
		st.env[in] = &Val{T: in.Type(), C: []*Term{s.C[0], tb.Add(s.C[1], lo), tb.Sub(hi, lo)}}
		return nil
	case *types.Pointer: // pointer to array
		at := t.Elem().Underlying().(*types.Array)
		if s.A != nil {
			return fmt.Errorf("UNSUPPORTED slicing of array inside a struct")
		}
		n := tb.BV(64, uint64(at.Len()))
		if hi == nil {
			hi = n
		}
		if x.ghost == 0 {
			x.oblige(st, "safe", fmt.Sprintf("safe.slice@%s", x.posStr(in.Pos())), in.Pos(), tb.And(tb.Cmp("bvule", lo, hi), tb.Cmp("bvule", hi, n)))
		}
		st.env[in] = &Val{T: in.Type(), C: []*Term{s.C[0], lo, tb.Sub(hi, lo), tb.Sub(n, lo)}}
		return nil
	}
	return fmt.Errorf("unsupported Slice on %s", in.X.Type())
}

func (x *Exec) convert(st *State, a *Val, from, to types.Type) (*Val, error) {
	tb := x.tb
	fu, tu := from.Underlying(), to.Underlying()
	fb, fok := fu.(*types.Basic)
	tbb, tok := tu.(*types.Basic)
	if fok && tok {
		fi := fb.Info()&types.IsInteger != 0
		ti := tbb.Info()&types.IsInteger != 0
		switch {
		case fi && ti:
			n := basicBits(tbb)
			var r *Term
			if isSigned(from) {
				r = tb.SExt(n, a.C[0])
			} else {
				r = tb.ZExt(n, a.C[0])
			}
			return &Val{T: to, C: []*Term{r}}, nil
		case fb.Info()&types.IsString != 0 && tbb.Info()&types.IsString != 0:
			c := *a
			c.T = to
			return &c, nil
		case fb.Kind() == types.UnsafePointer && tbb.Kind() == types.UnsafePointer:
			c := *a
			c.T = to
			return &c, nil
		case fb.Info()&types.IsFloat != 0 && tbb.Info()&types.IsFloat != 0 && basicBits(fb) == basicBits(tbb):
			c := *a
			c.T = to
			return &c, nil
		}
		return nil, fmt.Errorf("UNSUPPORTED conversion %s -> %s", from, to)
	}
	// string <-> []byte : fresh copy
	if _, ok := fu.(*types.Slice); ok && tok && tbb.Info()&types.IsString != 0 {
		r := x.alloc(st, "str")
		x.bulkCopy(st, types.Typ[types.Byte], r, tb.BV(64, 0), a.C[2], a.C[0], a.C[1])
		// an empty conversion yields the empty string (ref irrelevant)
		return &Val{T: to, C: []*Term{r, tb.BV(64, 0), a.C[2]}}, nil
	}
	if _, ok := tu.(*types.Slice); ok && fok && fb.Info()&types.IsString != 0 {
		r := x.alloc(st, "bytes")
		x.bulkCopy(st, types.Typ[types.Byte], r, tb.BV(64, 0), a.C[2], a.C[0], a.C[1])
		return &Val{T: to, C: []*Term{r, tb.BV(64, 0), a.C[2], a.C[2]}}, nil
	}
	// pointer <-> unsafe.Pointer: the address is kept, so a later load at another pointee
	// type reads the components of that type at the same location (a string header is the
	// prefix of a slice header, which is the one reinterpretation the code in scope performs)
	if pt, ok := fu.(*types.Pointer); ok && tok && tbb.Kind() == types.UnsafePointer {
		c := *a
		c.T = to
		if c.A == nil {
			c.A = x.addrOf(a, pt.Elem())
		}
		x.trusted["unsafe pointer cast modelled as a view of the same components: "+typeKey(from)] = true
		return &c, nil
	}
	if _, ok := tu.(*types.Pointer); ok && fok && fb.Kind() == types.UnsafePointer {
		if a.A == nil {
			return nil, fmt.Errorf("UNSUPPORTED conversion from unsafe.Pointer of unknown provenance")
		}
		c := *a
		c.T = to
		return &c, nil
	}
	return nil, fmt.Errorf("UNSUPPORTED conversion %s -> %s", from, to)
}

// bulkCopy copies n elements of type et from (sRef, sLo..) to (dRef, dLo..) in every
// component heap of the element type.
func (x *Exec) bulkCopy(st *State, et types.Type, dRef, dLo, n, sRef, sLo *Term) {
	for _, c := range flatten(et) {
		name := elemPrefix(et) + c.suffix
		m := x.heap(st, name, 2, c.hsort())
		st.heaps[name] = m.Copy(dRef, dLo, n, m, sRef, sLo)
	}
}

func (x *Exec) makeIface(st *State, a *Val, from, to types.Type) *Val {
	tb := x.tb
	if isIface(from) {
		c := *a
		c.T = to
		return &c
	}
	id := tb.BV(32, x.w.typeID(from))
	switch from.Underlying().(type) {
	case *types.Pointer, *types.Map, *types.Chan, *types.Signature:
		if a.A != nil {
			// interior pointer escaping into an interface: keep provenance via a side table
			x.nsym++
			r := x.alloc(st, "ibox")
			x.boxes[r.id] = a
			return &Val{T: to, C: []*Term{id, r}}
		}
		return &Val{T: to, C: []*Term{id, a.C[0]}, Fn: a.Fn, Bind: a.Bind}
	}
	// box the value
	r := x.alloc(st, "box")
	av := *a
	av.T = from
	x.store(st, &Addr{prefix: "B:" + typeKey(from), keys: []*Term{r}}, &av)
	x.boxes[r.id] = a
	return &Val{T: to, C: []*Term{id, r}}
}

func (x *Exec) unbox(st *State, v *Val, to types.Type) *Val {
	if b, ok := x.boxes[v.C[1].id]; ok {
		c := *b
		c.T = to
		return &c
	}
	switch to.Underlying().(type) {
	case *types.Pointer, *types.Map, *types.Chan, *types.Signature:
		return &Val{T: to, C: []*Term{v.C[1]}, Fn: v.Fn, Bind: v.Bind}
	}
	return x.load(st, &Addr{prefix: "B:" + typeKey(to), keys: []*Term{v.C[1]}}, to)
}

func (x *Exec) typeAssert(st *State, in *ssa.TypeAssert) error {
	tb := x.tb
	v, err := x.operand(st, in.X)
	if err != nil {
		return err
	}
	var ok *Term
	var res *Val
	if isIface(in.AssertedType) {
		ok = tb.And(tb.Ne(v.C[0], tb.BV(32, 0)), x.implements(v.C[0], in.AssertedType))
		c := *v
		c.T = in.AssertedType
		res = &c
	} else {
		ok = tb.Eq(v.C[0], tb.BV(32, x.w.typeID(in.AssertedType)))
		res = x.unbox(st, v, in.AssertedType)
	}
	if in.CommaOk {
		// on failure the value is the zero value
		z := x.zero(in.AssertedType)
		m, err := x.mergeVal(ok, res, z)
		if err != nil {
			m = res
		}
		st.env[in] = &Val{T: in.Type(), Tup: []*Val{m, x.boolVal(ok)}}
		return nil
	}
	if x.ghost == 0 {
		x.oblige(st, "safe", fmt.Sprintf("safe.assert@%s", x.posStr(in.Pos())), in.Pos(), ok)
	}
	st.env[in] = res
	return nil
}

// implements: does dynamic type id `typ` implement interface it?
func (x *Exec) implements(typ *Term, it types.Type) *Term {
	tb := x.tb
	iface := it.Underlying().(*types.Interface)
	if iface.NumMethods() == 0 {
		return tb.True
	}
	if typ.IsConst() {
		t := x.w.typeByID(typ.Val)
		if t == nil {
			return tb.False
		}
		return tb.Bool(types.Implements(t, iface))
	}
	if typ.Op == "ite" {
		return tb.Ite(typ.Args[0], x.implements(typ.Args[1], it), x.implements(typ.Args[2], it))
	}
	name := "impl:" + typeKey(it)
	x.ifaceUsed[name] = it
	r := tb.App(name, 0, typ)
	// relate to other interfaces seen so far on the same type term
	x.implTerms = append(x.implTerms, implTerm{typ, it, r})
	return r
}

type implTerm struct {
	typ *Term
	it  types.Type
	r   *Term
}

func (x *Exec) makeSlice(st *State, in *ssa.MakeSlice) error {
	tb := x.tb
	l, err := x.operand(st, in.Len)
	if err != nil {
		return err
	}
	c, err := x.operand(st, in.Cap)
	if err != nil {
		return err
	}
	lt := x.toInt64(l, in.Len.Type())
	ct := x.toInt64(c, in.Cap.Type())
	lim := tb.BV(64, 1<<sizeBits-1)
	if x.ghost == 0 {
		x.oblige(st, "safe", fmt.Sprintf("safe.make@%s", x.posStr(in.Pos())), in.Pos(),
			tb.And(tb.Cmp("bvule", lt, ct), tb.Cmp("bvule", ct, lim)))
		x.allocObligation(st, in.Pos(), ct, in.Type().Underlying().(*types.Slice).Elem())
	}
	r := x.alloc(st, "mk")
	et := in.Type().Underlying().(*types.Slice).Elem()
	x.zeroElems(st, et, r)
	st.env[in] = &Val{T: in.Type(), C: []*Term{r, tb.BV(64, 0), lt, ct}}
	return nil
}

// zeroElems makes every element of array object r the zero value.
func (x *Exec) zeroElems(st *State, et types.Type, r *Term) {
	tb := x.tb
	for _, cp := range flatten(et) {
		name := elemPrefix(et) + cp.suffix
		m := x.heap(st, name, 2, cp.hsort())
		var z *Term
		if cp.sort == 0 {
			z = tb.False
		} else {
			z = tb.BV(cp.hsort(), 0)
		}
		st.heaps[name] = m.Havoc(func(key []*Term) *Term { return tb.Eq(key[0], r) }, constMem(name, z))
	}
}

// constMem is a memory whose every location holds the same value.
func constMem(name string, v *Term) *Mem {
	return &Mem{kind: mStoreAll, name: name, val: v, sort: v.Sort, cache: map[string]*Term{}}
}

func (x *Exec) mapKeyTerms(k *Val) ([]*Term, error) {
	if len(k.C) != 1 {
		return nil, fmt.Errorf("UNSUPPORTED map key type %s", k.T)
	}
	return []*Term{k.C[0]}, nil
}

// mapStoreKey: the key under which an UPDATE files its value.  String keys are filed under an
// identity of the string value (reference, offset, length), which is finer than Go's
// equality by contents: two updates with equal but distinct strings stay two entries.  That
// is harmless for updates alone; reading such a map is refused (lookup) or loses the entries
// (iteration and len see a new, unconstrained map version).
func (x *Exec) mapStoreKey(k *Val) ([]*Term, error) {
	if len(k.C) == 3 && isString(k.T) {
		return []*Term{x.tb.App("strkeyid", 64, k.C[0], k.C[1], k.C[2])}, nil
	}
	return x.mapKeyTerms(k)
}

func (x *Exec) mapClear(st *State, mt *types.Map, r *Term) {
	tb := x.tb
	name := "M:" + typeKey(mt) + "#dom"
	m := x.heap(st, name, 2, 0)
	st.heaps[name] = m.Havoc(func(key []*Term) *Term { return tb.Eq(key[0], r) }, constMem(name, tb.False))
}

func (x *Exec) mapUpdate(st *State, in *ssa.MapUpdate) error {
	tb := x.tb
	m, err := x.operand(st, in.Map)
	if err != nil {
		return err
	}
	k, err := x.operand(st, in.Key)
	if err != nil {
		return err
	}
	v, err := x.operand(st, in.Value)
	if err != nil {
		return err
	}
	mt := in.Map.Type().Underlying().(*types.Map)
	ks, err := x.mapStoreKey(k)
	if err != nil {
		return err
	}
	if x.ghost == 0 {
		x.oblige(st, "safe", fmt.Sprintf("safe.nilmap@%s", x.posStr(in.Pos())), in.Pos(), tb.Ne(m.C[0], tb.BV(64, 0)))
	}
	key := append([]*Term{m.C[0]}, ks...)
	dn := "M:" + typeKey(mt) + "#dom"
	dm := x.heap(st, dn, 2, 0)
	st.heaps[dn] = dm.Store(tb, key, tb.True)
	vv := *v
	vv.T = mt.Elem()
	x.store(st, &Addr{prefix: "M:" + typeKey(mt) + "#v", keys: key}, &vv)
	return nil
}

func (x *Exec) lookup(st *State, in *ssa.Lookup) error {
	tb := x.tb
	m, err := x.operand(st, in.X)
	if err != nil {
		return err
	}
	k, err := x.operand(st, in.Index)
	if err != nil {
		return err
	}
	mt, ok := in.X.Type().Underlying().(*types.Map)
	if !ok {
		return fmt.Errorf("UNSUPPORTED lookup on %s", in.X.Type())
	}
	ks, err := x.mapKeyTerms(k)
	if err != nil {
		return err
	}
	key := append([]*Term{m.C[0]}, ks...)
	dn := "M:" + typeKey(mt) + "#dom"
	dm := x.heap(st, dn, 2, 0)
	present := tb.And(tb.Ne(m.C[0], tb.BV(64, 0)), dm.Select(x, key))
	val := x.load(st, &Addr{prefix: "M:" + typeKey(mt) + "#v", keys: key}, mt.Elem())
	z := x.zero(mt.Elem())
	mv, err := x.mergeVal(present, val, z)
	if err != nil {
		return err
	}
	if in.CommaOk {
		st.env[in] = &Val{T: in.Type(), Tup: []*Val{mv, x.boolVal(present)}}
	} else {
		st.env[in] = mv
	}
	return nil
}

// checkFrame emits the frame obligation for a store to address a.
func (x *Exec) checkFrame(st *State, a *Addr, pos token.Pos) {
	if !x.hasFrame || x.ghost > 0 {
		return
	}
	tb := x.tb
	if a.prefix[0] == 'G' {
		x.oblige(st, "frame", fmt.Sprintf("frame@%s", x.posStr(pos)), pos, tb.False)
		return
	}
	g := tb.Cmp("bvult", x.top0, a.keys[0])
	for _, f := range x.frame {
		if !(a.prefix == f.prefix || frameCovers(f, a.prefix)) {
			continue
		}
		in := tb.Eq(a.keys[0], f.ref)
		if f.lo != nil && len(a.keys) > 1 {
			in = tb.And(in, tb.Cmp("bvult", tb.Sub(a.keys[1], f.lo), tb.Sub(f.hi, f.lo)))
		}
		g = tb.Or(g, in)
	}
	if g.IsTrue() {
		return
	}
	x.oblige(st, "frame", fmt.Sprintf("frame@%s", x.posStr(pos)), pos, g)
}

func (x *Exec) allocObligation(st *State, pos token.Pos, n *Term, et types.Type) {
	if x.allocBound == nil {
		return
	}
	tb := x.tb
	x.oblige(st, "alloc", fmt.Sprintf("alloc@%s", x.posStr(pos)), pos, tb.Cmp("bvule", n, x.allocBound))
}

// Map iteration.  An iterator is the pair (map reference, position); its position is kept in
// the environment entry of the Range instruction and advanced by every Next.  The key at
// position i of map r is an uninterpreted function of (r, map-heap version, i): that is
// exact when the map holds at most one entry (there is one order), and an order would be a
// hidden assumption beyond that - so every Range carries the obligation len(map) <= 1, and
// harnesses that iterate maps state that bound.  Only loops that are unrolled may iterate a
// map (a cut loop would need the position in its invariant).
func (x *Exec) rangeStart(st *State, in *ssa.Range) error {
	tb := x.tb
	mt, ok := in.X.Type().Underlying().(*types.Map)
	if !ok {
		return fmt.Errorf("UNSUPPORTED range over string")
	}
	m, err := x.operand(st, in.X)
	if err != nil {
		return err
	}
	l := x.mapLen(st, mt, m.C[0])
	x.oblige(st, "safe", fmt.Sprintf("bound.maprange@%s", x.posStr(in.Pos())), in.Pos(), tb.Cmp("bvule", l, tb.BV(64, 1)))
	st.env[in] = &Val{T: in.Type(), C: []*Term{m.C[0], tb.BV(64, 0)}}
	return nil
}

func (x *Exec) mapLen(st *State, mt *types.Map, ref *Term) *Term {
	tb := x.tb
	if ref.IsConst() && ref.Val == 0 {
		return tb.BV(64, 0)
	}
	l := tb.App("maplen:"+typeKey(mt), 64, ref, x.mapVersion(st, mt))
	x.fact(tb.Cmp("bvule", l, tb.BV(64, 1<<sizeBits-1)))
	x.fact(tb.Implies(tb.Eq(ref, tb.BV(64, 0)), tb.Eq(l, tb.BV(64, 0))))
	return l
}

func (x *Exec) rangeNext(fr *frameRun, st *State, in *ssa.Next) error {
	tb := x.tb
	if in.IsString {
		return fmt.Errorf("UNSUPPORTED range over string")
	}
	rg, ok := in.Iter.(*ssa.Range)
	if !ok {
		return fmt.Errorf("UNSUPPORTED iterator %T", in.Iter)
	}
	for _, l := range fr.loops {
		if l.body[in.Block()] && l.spec != nil && len(l.spec.Invs) > 0 {
			return fmt.Errorf("UNSUPPORTED map iteration in a loop cut by an invariant")
		}
	}
	mt := rg.X.Type().Underlying().(*types.Map)
	it := st.env[rg]
	if it == nil {
		return fmt.Errorf("iterator state lost (merge)")
	}
	ref, idx := it.C[0], it.C[1]
	ver := x.mapVersion(st, mt)
	l := x.mapLen(st, mt, ref)
	okT := tb.Cmp("bvult", idx, l)
	tk := typeKey(mt)
	kcs := flatten(mt.Key())
	key := &Val{T: mt.Key(), C: make([]*Term, len(kcs))}
	for i, c := range kcs {
		key.C[i] = tb.ZExt(c.sort, tb.App(fmt.Sprintf("mapkey:%s#%d", tk, i), c.hsort(), ref, ver, idx))
		if c.sort == 0 {
			return fmt.Errorf("UNSUPPORTED bool map key")
		}
	}
	var kid *Term
	if len(kcs) == 1 {
		kid = key.C[0]
		dn := "M:" + tk + "#dom"
		dm := x.heap(st, dn, 2, 0)
		x.assumeIn(st, tb.Implies(okT, dm.Select(x, []*Term{ref, kid})))
	} else {
		kid = tb.App("mapkeyid:"+tk, 64, ref, ver, idx)
	}
	for _, f := range x.validity(key, x.refOK(st)) {
		x.assumeIn(st, tb.Implies(okT, f))
	}
	val := x.load(st, &Addr{prefix: "M:" + tk + "#v", keys: []*Term{ref, kid}}, mt.Elem())
	st.env[rg] = &Val{T: rg.Type(), C: []*Term{ref, tb.Add(idx, tb.BV(64, 1))}}
	st.env[in] = &Val{T: in.Type(), Tup: []*Val{x.boolVal(okT), key, val}}
	return nil
}
