package main

// Symbolic execution of go/ssa functions over the loop-cut / loop-unrolled CFG with state
// merging at joins.  One Exec is one verification unit (a function under contract or a
// lemma harness); callees are handled by contract or inlined (call.go).

import (
	"fmt"
	"os"
	"runtime/debug"
	"go/token"
	"go/types"
	"sort"
	"strings"

	"golang.org/x/tools/go/ssa"
)

type State struct {
	env    map[ssa.Value]*Val
	heaps  map[string]*Mem
	pc     *Term // path condition relative to the current function activation
	base   *Term // path condition of the enclosing activations (full condition = base && pc)
	top    *Term // frontier of objects allocated by callees / earlier loop iterations (unknown refs)
	havocs []*havocRec // every havoc applied on the way here (ordered by id), for lazy heaps
}

// havocRec is one "forget" event (loop cut or call by contract).  It applies to every heap
// component whose name it covers, including components first touched later.
type havocRec struct {
	id     int
	guard  *Term
	covers func(name string) bool
	pred   func(name string, key []*Term) *Term
	refOK  func(*Term) *Term
}

func (s *State) clone() *State {
	n := &State{pc: s.pc, base: s.base, top: s.top, havocs: s.havocs, env: make(map[ssa.Value]*Val, len(s.env)+8), heaps: make(map[string]*Mem, len(s.heaps)+4)}
	for k, v := range s.env {
		n.env[k] = v
	}
	for k, v := range s.heaps {
		n.heaps[k] = v
	}
	return n
}

type Oblig struct {
	Name      string
	Kind      string
	Func      string
	Pos       string
	PC        *Term
	Goal      *Term
	NHyps     int
	Extra     []*Term
	ExpectSat bool // vacuity / reachability checks: must be satisfiable
	Trivial   bool
	Sliced    bool // discharged from a subset of the hypotheses
	Cases     int  // discharged as this many path-condition cases
	// results
	Status  string
	Solver  string
	Seconds float64
	Model   map[string]string
	Output  string
}

type pendingForall struct {
	guard  *Term
	lo, hi *Term
	body   func(i *Term) (*Term, error)
	hints  []*Term
}

type Exec struct {
	w        *World
	tb       *TB
	unit     string
	nsym     int
	assumes  []*Term
	facts    []*Term
	factSeen map[int]bool
	obligs   []*Oblig
	ghost    int
	assume   int // >0 while evaluating a clause that is being assumed
	errs     []string
	pend     []*pendingForall
	latent   map[int]*pendingForall // skolemised foralls by result term, activated if assumed
	skolems  []*Term
	top0     *Term
	frame    []frameLoc // modifies clause of the unit under verification (nil = no frame check)
	hasFrame bool
	depth    int
	unsup    []string
	inputs   []inputSym
	strlits  map[string]uint64
	calls    map[string]int
	trusted  map[string]bool
	bases      map[string]*Mem
	epochBases map[string]*Mem
	nhavoc     int
	boxes         map[int]*Val
	ifaceUsed     map[string]types.Type
	implTerms     []implTerm
	allocBound    *Term
	modOut        *[]frameLoc
	hints         []*Term
	allSkolems    []*Term
	boxedErr      map[int]bool
	bindStack     [][]*Val
	unitFn        *ssa.Function
	usedContracts map[string]bool
	globals       map[string]uint64
	nameCount     map[string]int
	allocCtr      int
	decrEntry     *Term
	lastAlloc      map[string]*Term
	inlineNames    map[string]bool
	abstracted     map[string]bool
	cutLoops       bool
	outerUnroll    int
	cutCount       int
	absCall        bool
	harnessUnroll  int
	unrollOverride int
	unfolding     map[*ssa.Function]int
	memVer        map[*Mem]uint64
	freshBaseName map[string]string
}

type inputSym struct {
	Name string
	Val  *Val
}

type frameLoc struct {
	prefix string // heap component prefix ("F:pkg.T.f" or "E:elem")
	ref    *Term
	lo, hi *Term // element ranges (nil for field locations)
	whole  bool  // every component with this prefix+"." or equal
}

func (x *Exec) fact(t *Term) {
	if t.IsTrue() || x.factSeen[t.id] {
		return
	}
	x.factSeen[t.id] = true
	x.facts = append(x.facts, t)
}

// full is the complete path condition of a state.
func (x *Exec) full(st *State) *Term { return x.tb.And(st.base, st.pc) }

func (x *Exec) assumeIn(st *State, t *Term) {
	g := x.tb.Implies(x.full(st), t)
	if g.IsTrue() {
		return
	}
	if g.IsFalse() && os.Getenv("GOCV_DEBUG") != "" {
		fmt.Fprintf(os.Stderr, "DEBUG: assuming false under pc true (hyp #%d)\n", len(x.assumes))
		debug.PrintStack()
	}
	x.assumes = append(x.assumes, g)
}

func (x *Exec) posStr(p token.Pos) string {
	if !p.IsValid() {
		return ""
	}
	pos := x.w.fset.Position(p)
	return fmt.Sprintf("%s:%d", strings.TrimPrefix(pos.Filename, x.w.repo+"/"), pos.Line)
}

func (x *Exec) oblige(st *State, kind, name string, pos token.Pos, goal *Term) {
	if x.ghost > 0 {
		return
	}
	if x.nameCount == nil {
		x.nameCount = map[string]int{}
	}
	x.nameCount[name]++
	if c := x.nameCount[name]; c > 1 {
		name = fmt.Sprintf("%s.%d", name, c)
	}
	o := &Oblig{Name: x.unit + "#" + name, Kind: kind, Func: x.unit, Pos: x.posStr(pos), PC: x.full(st), Goal: goal, NHyps: len(x.assumes)}
	if goal.IsFalse() && o.PC.IsTrue() && os.Getenv("GOCV_DEBUG") != "" {
		fmt.Fprintf(os.Stderr, "DEBUG: obligation %s has goal false under pc true\n", o.Name)
	}
	if goal.IsTrue() || o.PC.IsFalse() {
		o.Trivial = true
		o.Status = "unsat"
		o.Solver = "simplifier"
	}
	// instantiate pending quantified hypotheses at the skolem constants introduced while
	// this goal was built (and at explicit hints)
	o.Extra = x.instantiatePending()
	x.skolems = nil
	x.obligs = append(x.obligs, o)
	// once checked, the goal may be assumed on this path (standard assert-then-assume)
	x.assumeIn(st, goal)
}

func (x *Exec) unsupported(where string, what string) {
	x.unsup = append(x.unsup, where+": "+what)
}

// ---------------------------------------------------------------------------------------
// heap access

func (x *Exec) heap(st *State, name string, arity, sort int) *Mem {
	if m, ok := st.heaps[name]; ok {
		return m
	}
	m, ok := x.bases[name]
	if !ok {
		m = x.newBase(name, arity, sort)
		if isRefComp(name) {
			tb, top0 := x.tb, x.top0
			m.refBound = func(r *Term) *Term { return tb.Cmp("bvule", r, top0) }
			m.lowRefs = true
		}
		x.bases[name] = m
	}
	for _, h := range st.havocs {
		if h.covers(name) {
			m = x.applyHavoc(m, name, h, true)
		}
	}
	st.heaps[name] = m
	return m
}

// isRefComp: the heap component holds references (pointer, map, slice/string #ref).
func isRefComp(name string) bool {
	return strings.HasSuffix(name, "#ref") || strings.HasSuffix(name, "$p")
}

func (x *Exec) applyHavoc(m *Mem, name string, h *havocRec, guarded bool) *Mem {
	k := fmt.Sprintf("%d|%s", h.id, name)
	fresh, ok := x.epochBases[k]
	if !ok {
		fresh = x.newBase(name, m.arity, m.sort)
		if isRefComp(name) {
			fresh.refBound = h.refOK
		}
		x.epochBases[k] = fresh
		if x.freshBaseName == nil {
			x.freshBaseName = map[string]string{}
		}
		x.freshBaseName[fresh.ufName] = name
	}
	tb := x.tb
	return m.Havoc(func(key []*Term) *Term {
		p := h.pred(name, key)
		if guarded {
			p = tb.And(h.guard, p)
		}
		return p
	}, fresh)
}

// havoc applies a forget event to the state.
func (x *Exec) havoc(st *State, covers func(string) bool, pred func(string, []*Term) *Term) {
	x.nhavoc++
	if dn := os.Getenv("GOCV_HAVOCDBG"); dn != "" && covers(dn) {
		fmt.Fprintf(os.Stderr, "DEBUG: havoc #%d covers %s\n", x.nhavoc, dn)
		debug.PrintStack()
	}
	h := &havocRec{id: x.nhavoc, guard: x.full(st), covers: covers, pred: pred, refOK: x.refOK(st)}
	st.havocs = append(append([]*havocRec{}, st.havocs...), h)
	for name, m := range st.heaps {
		if covers(name) {
			st.heaps[name] = x.applyHavoc(m, name, h, false)
		}
	}
}

func (x *Exec) load(st *State, a *Addr, t types.Type) *Val {
	cs := flatten(t)
	v := &Val{T: t, C: make([]*Term, len(cs))}
	for i, c := range cs {
		m := x.heap(st, a.prefix+c.suffix, len(a.keys), c.hsort())
		v.C[i] = x.tb.ZExt(c.sort, m.Select(x, a.keys))
	}
	// Type invariants of the loaded value.  They are facts about this execution path only
	// (the value may be a term computed from the inputs, e.g. a sub-slice stored in a cell
	// after a bounds check), so they are assumed under the path condition, never globally.
	for _, f := range x.validity(v, nil) {
		x.assumeIn(st, f)
	}
	return v
}

func (x *Exec) store(st *State, a *Addr, v *Val) {
	cs := flatten(v.T)
	if len(cs) != len(v.C) {
		panic(fmt.Sprintf("store: comps mismatch for %s", v.T))
	}
	for i, c := range cs {
		name := a.prefix + c.suffix
		m := x.heap(st, name, len(a.keys), c.hsort())
		val := v.C[i]
		if c.hsort() != c.sort {
			val = x.tb.Extract(c.hsort()-1, 0, val)
		}
		st.heaps[name] = m.Store(x.tb, a.keys, val)
	}
}

// addrOf returns the address a pointer value denotes for pointee type t.
func (x *Exec) addrOf(p *Val, t types.Type) *Addr {
	if p.A != nil {
		return p.A
	}
	return &Addr{prefix: heapPrefix(t), keys: []*Term{p.C[0]}}
}

// Reference space.  References are abstract identities, so the engine is free to choose
// them: objects that exist at the unit's entry are in (0, top0] with top0 < 2^59; objects
// allocated by callees (by contract) or by earlier iterations of a cut loop are unknown
// references in (2^59, st.top] with st.top < 2^60; every allocation the engine executes
// itself gets the concrete reference 2^60+k (k unique per unit), which makes distinctness
// of allocations syntactic.  Error globals are at 2^62+k, string literals at 2^63+k.
const (
	calleeBase = uint64(1) << 59
	ownBase    = uint64(1) << 60
)

func (x *Exec) alloc(st *State, hint string) *Term {
	x.allocCtr++
	_ = hint
	return x.tb.BV(64, ownBase+uint64(x.allocCtr))
}

// refOK: the bound every reference read in state st satisfies.
func (x *Exec) refOK(st *State) func(r *Term) *Term {
	tb := x.tb
	top := st.top
	hi := tb.BV(64, ownBase+uint64(x.allocCtr))
	return func(r *Term) *Term {
		return tb.Or(tb.Cmp("bvule", r, top), tb.And(tb.Cmp("bvule", tb.BV(64, ownBase), r), tb.Cmp("bvule", r, hi)))
	}
}

// bumpTop moves the unknown-allocation frontier (after a call or a loop cut).
func (x *Exec) bumpTop(st *State) {
	tb := x.tb
	x.nsym++
	ntop := tb.Var(fmt.Sprintf("top!%d", x.nsym), 64)
	x.fact(tb.Cmp("bvule", st.top, ntop))
	x.fact(tb.Cmp("bvult", ntop, tb.BV(64, ownBase)))
	st.top = ntop
}

// ---------------------------------------------------------------------------------------
// loops

type loopInfo struct {
	header *ssa.BasicBlock
	body   map[*ssa.BasicBlock]bool // includes header
	ord    int                      // 1-based ordinal in source order
	spec   *LoopSpec
}

func findLoops(fn *ssa.Function) []*loopInfo {
	var loops []*loopInfo
	byHeader := map[*ssa.BasicBlock]*loopInfo{}
	for _, b := range fn.Blocks {
		for _, s := range b.Succs {
			if s.Dominates(b) { // back edge b -> s
				li := byHeader[s]
				if li == nil {
					li = &loopInfo{header: s, body: map[*ssa.BasicBlock]bool{s: true}}
					byHeader[s] = li
					loops = append(loops, li)
				}
				// natural loop: nodes reaching b without passing s
				stack := []*ssa.BasicBlock{b}
				for len(stack) > 0 {
					n := stack[len(stack)-1]
					stack = stack[:len(stack)-1]
					if li.body[n] {
						continue
					}
					li.body[n] = true
					stack = append(stack, n.Preds...)
				}
			}
		}
	}
	// order by source position of the header's first positioned instruction; fall back to index
	pos := func(l *loopInfo) int {
		best := int(^uint(0) >> 1)
		for b := range l.body {
			for _, in := range b.Instrs {
				if p := in.Pos(); p.IsValid() && int(p) < best {
					best = int(p)
				}
			}
		}
		return best
	}
	sort.SliceStable(loops, func(i, j int) bool { return pos(loops[i]) < pos(loops[j]) })
	for i, l := range loops {
		l.ord = i + 1
	}
	return loops
}

// ---------------------------------------------------------------------------------------
// expanded CFG

type xnode struct {
	b      *ssa.BasicBlock
	ctx    string // loop counters "h:k;..."
	cnt    map[int]int
	kind   int // 0 block, 1 back-edge check of a cut loop, 2 unwind
	loop   *loopInfo
	preds  []*xedge
	succs  []*xedge
	in     []*edgeState
	indeg  int
	id     int
	fromIx int // for kind 1: index of pred block in header.Preds
}

type xedge struct {
	from, to *xnode
	predIdx  int // index of from.b in to.b.Preds (for phis)
}

type edgeState struct {
	st      *State
	predIdx int
	from    *xnode
}

func ctxKey(cnt map[int]int) string {
	if len(cnt) == 0 {
		return ""
	}
	ks := make([]int, 0, len(cnt))
	for k := range cnt {
		ks = append(ks, k)
	}
	sort.Ints(ks)
	var sb strings.Builder
	for _, k := range ks {
		fmt.Fprintf(&sb, "%d:%d;", k, cnt[k])
	}
	return sb.String()
}

// exitedLoop: all incoming edges of n come from inside one unrolled loop that contains no
// return or panic, and n lies outside that loop.
func (fr *frameRun) exitedLoop(n *xnode) *loopInfo {
	var cand *loopInfo
	for _, l := range fr.loops {
		if l.body[n.b] || (l.spec != nil && len(l.spec.Invs) > 0) {
			continue
		}
		all := true
		for _, in := range n.in {
			if in.from == nil || !l.body[in.from.b] {
				all = false
				break
			}
		}
		if !all {
			continue
		}
		if cand == nil || len(l.body) < len(cand.body) {
			cand = l
		}
	}
	if cand == nil {
		return nil
	}
	// n must be the ONLY way out of the loop (blocks that return or panic from inside the
	// loop are not part of the natural loop body: they show up as further exit targets)
	for b := range cand.body {
		for _, instr := range b.Instrs {
			switch instr.(type) {
			case *ssa.Return, *ssa.Panic:
				return nil
			}
		}
		for _, s := range b.Succs {
			if !cand.body[s] && s != n.b {
				return nil
			}
		}
	}
	return cand
}

// postDominates: every path from block d to a function exit (return or panic) passes
// through block b.
func (fr *frameRun) postDominates(b, d *ssa.BasicBlock) bool {
	if fr.pdom == nil {
		blocks := fr.fn.Blocks
		n := len(blocks)
		// pdom[i] = set of blocks post-dominating i (bitset as []bool), iterative dataflow
		full := func() []bool {
			s := make([]bool, n)
			for i := range s {
				s[i] = true
			}
			return s
		}
		pd := make([][]bool, n)
		for i, blk := range blocks {
			if len(blk.Succs) == 0 {
				pd[i] = make([]bool, n)
				pd[i][i] = true
			} else {
				pd[i] = full()
			}
		}
		for changed := true; changed; {
			changed = false
			for i := n - 1; i >= 0; i-- {
				blk := blocks[i]
				if len(blk.Succs) == 0 {
					continue
				}
				ns := full()
				for _, s := range blk.Succs {
					for k := 0; k < n; k++ {
						ns[k] = ns[k] && pd[s.Index][k]
					}
				}
				ns[i] = true
				for k := 0; k < n; k++ {
					if ns[k] != pd[i][k] {
						pd[i] = ns
						changed = true
						break
					}
				}
			}
		}
		fr.pdom = pd
	}
	return fr.pdom[d.Index][b.Index]
}

type frameRun struct {
	pdom        [][]bool
	nodeEntryPC map[string]*Term
	loopEntryPC map[string]*Term
	fn      *ssa.Function
	loops   []*loopInfo
	hdr     map[*ssa.BasicBlock]*loopInfo
	con     *Contract
	invs    map[int][]*Val // loop ord -> invariant closures (evaluated at entry)
	rets    []*retState
	entry   *State
	unrollD int
}

type retState struct {
	st   *State
	vals []*Val
}

func predIndex(to, from *ssa.BasicBlock) int {
	for i, p := range to.Preds {
		if p == from {
			return i
		}
	}
	return -1
}

// expand builds the acyclic expanded CFG.
func (x *Exec) expand(fr *frameRun) ([]*xnode, error) {
	fn := fr.fn
	nodes := map[string]*xnode{}
	var order []*xnode
	get := func(b *ssa.BasicBlock, cnt map[int]int, kind int, l *loopInfo, fromIx int) (*xnode, bool) {
		k := fmt.Sprintf("%d|%d|%s|%d", b.Index, kind, ctxKey(cnt), fromIx)
		if n, ok := nodes[k]; ok {
			return n, false
		}
		n := &xnode{b: b, cnt: cnt, ctx: ctxKey(cnt), kind: kind, loop: l, id: len(order), fromIx: fromIx}
		nodes[k] = n
		order = append(order, n)
		return n, true
	}
	entry, _ := get(fn.Blocks[0], map[int]int{}, 0, nil, 0)
	work := []*xnode{entry}
	for len(work) > 0 {
		n := work[len(work)-1]
		work = work[:len(work)-1]
		if n.kind != 0 {
			continue
		}
		if len(order) > 60000 {
			return nil, fmt.Errorf("expanded CFG too large for %s", fn)
		}
		for _, s := range n.b.Succs {
			cnt := map[int]int{}
			for k, v := range n.cnt {
				cnt[k] = v
			}
			// leaving loops: drop counters of loops that do not contain s
			for _, l := range fr.loops {
				if _, has := cnt[l.header.Index]; has && !l.body[s] {
					delete(cnt, l.header.Index)
				}
			}
			kind := 0
			var tl *loopInfo
			fromIx := 0
			if l := fr.hdr[s]; l != nil {
				if l.body[n.b] { // back edge
					if l.spec != nil && len(l.spec.Invs) > 0 {
						kind, tl = 1, l
						fromIx = predIndex(s, n.b)
					} else {
						cnt[s.Index]++
						bound := fr.unrollD
						if l.spec != nil && l.spec.Unroll > 0 {
							bound = l.spec.Unroll
						} else if x.outerUnroll > 0 && x.unrollOverride > 0 && x.ghost == 0 && x.inlineNames[fr.fn.Name()] {
							outer := true
							for _, ol := range fr.loops {
								if ol != l && ol.body[l.header] && len(ol.body) > len(l.body) {
									outer = false
								}
							}
							if outer {
								bound = x.outerUnroll
							}
						}
						if cnt[s.Index] > bound {
							kind, tl = 2, l
							fromIx = predIndex(s, n.b)
						}
						// inner loops restart
						for _, il := range fr.loops {
							if il != l && l.body[il.header] && il.body[il.header] && len(il.body) < len(l.body) {
								delete(cnt, il.header.Index)
							}
						}
					}
				} else {
					if l.spec == nil || len(l.spec.Invs) == 0 {
						cnt[s.Index] = 0
					}
				}
			}
			t, isNew := get(s, cnt, kind, tl, fromIx)
			e := &xedge{from: n, to: t, predIdx: predIndex(s, n.b)}
			n.succs = append(n.succs, e)
			t.preds = append(t.preds, e)
			if isNew {
				work = append(work, t)
			}
		}
	}
	// topological order (Kahn)
	for _, n := range order {
		n.indeg = len(n.preds)
	}
	var topo []*xnode
	var q []*xnode
	q = append(q, entry)
	for len(q) > 0 {
		n := q[0]
		q = q[1:]
		topo = append(topo, n)
		for _, e := range n.succs {
			e.to.indeg--
			if e.to.indeg == 0 {
				q = append(q, e.to)
			}
		}
	}
	if len(topo) != len(order) {
		return nil, fmt.Errorf("expanded CFG of %s is cyclic (irreducible loop?)", fn)
	}
	return topo, nil
}

// mergeStates merges edge states (mutually exclusive path conditions).
func (x *Exec) mergeStates(ins []*edgeState) (*State, error) {
	if len(ins) == 1 {
		return ins[0].st, nil
	}
	tb := x.tb
	// Merge conditions are the path conditions of the incoming edges with their common
	// conjuncts removed: what distinguishes the edges locally (the branch conditions), not
	// the whole history - keeps merged values syntactically small and comparable.
	local := localConds(tb, ins)
	res := ins[len(ins)-1].st.clone()
	for i := len(ins) - 2; i >= 0; i-- {
		s := ins[i].st
		c := local[i]
		// env
		for k, v := range s.env {
			if o, ok := res.env[k]; ok {
				if o != v {
					m, err := x.mergeVal(c, v, o)
					if err != nil {
						// value not mergeable: drop it (it is dead unless used; a later use reports)
						delete(res.env, k)
						continue
					}
					res.env[k] = m
				}
			}
		}
		for k := range res.env {
			if _, ok := s.env[k]; !ok {
				delete(res.env, k)
			}
		}
		// heaps
		names := map[string]bool{}
		for k := range s.heaps {
			names[k] = true
		}
		for k := range res.heaps {
			names[k] = true
		}
		for k := range names {
			a, aok := s.heaps[k]
			b, bok := res.heaps[k]
			if !aok {
				a = x.heap(s, k, b.arity, b.sort)
			}
			if !bok {
				b = x.heap(res, k, a.arity, a.sort)
			}
			res.heaps[k] = MemIte(tb, c, a, b)
		}
		res.havocs = unionHavocs(res.havocs, s.havocs)
		res.top = tb.Ite(c, s.top, res.top)
		res.pc = tb.Or(s.pc, res.pc)
	}
	return res, nil
}

// localConds strips the conjuncts shared by every incoming path condition.
func localConds(tb *TB, ins []*edgeState) []*Term {
	count := map[int]int{}
	sets := make([][]*Term, len(ins))
	for i, in := range ins {
		sets[i] = conjuncts(in.st.pc, nil)
		seen := map[int]bool{}
		for _, c := range sets[i] {
			if !seen[c.id] {
				seen[c.id] = true
				count[c.id]++
			}
		}
	}
	out := make([]*Term, len(ins))
	for i := range ins {
		var rest []*Term
		for _, c := range sets[i] {
			if count[c.id] < len(ins) {
				rest = append(rest, c)
			}
		}
		out[i] = tb.And(rest...)
	}
	return out
}

func unionHavocs(a, b []*havocRec) []*havocRec {
	if len(a) == len(b) {
		same := true
		for i := range a {
			if a[i] != b[i] {
				same = false
				break
			}
		}
		if same {
			return a
		}
	}
	seen := map[int]bool{}
	var out []*havocRec
	for _, h := range a {
		if !seen[h.id] {
			seen[h.id] = true
			out = append(out, h)
		}
	}
	for _, h := range b {
		if !seen[h.id] {
			seen[h.id] = true
			out = append(out, h)
		}
	}
	sort.Slice(out, func(i, j int) bool { return out[i].id < out[j].id })
	return out
}

// runFunc symbolically executes fn from state st with the given arguments and returns the
// merged return state.  con (may be nil) supplies loop specifications.
func (x *Exec) runFunc(fn *ssa.Function, args []*Val, st *State, con *Contract, invs map[int][]*Val) ([]*Val, *State, error) {
	if fn.Blocks == nil {
		return nil, nil, fmt.Errorf("no body for %s", fn)
	}
	x.depth++
	defer func() { x.depth-- }()
	if x.depth > 40 {
		return nil, nil, fmt.Errorf("inlining too deep at %s", fn)
	}
	fr := &frameRun{fn: fn, con: con, invs: invs, hdr: map[*ssa.BasicBlock]*loopInfo{}}
	fr.unrollD = 12
	if x.ghost > 0 {
		fr.unrollD = 20
	} else if x.unrollOverride > 0 && (fn == x.unitFn || x.inlineNames[fn.Name()] || fn.Origin() != nil && x.inlineNames[fn.Origin().Name()] || fn.Parent() != nil) {
		// the harness's bound applies to the harness and the functions it executes itself, not
		// to spec functions it evaluates on the way
		fr.unrollD = x.unrollOverride
	}
	fr.loops = findLoops(fn)
	for _, l := range fr.loops {
		fr.hdr[l.header] = l
		if con != nil {
			l.spec = con.Loops[l.ord]
		}
	}
	topo, err := x.expand(fr)
	if err != nil {
		return nil, nil, err
	}
	// a private env for the callee
	cs := &State{env: map[ssa.Value]*Val{}, heaps: st.heaps, pc: x.tb.True, base: x.full(st), top: st.top, havocs: st.havocs}
	cs = cs.clone()
	for i, p := range fn.Params {
		if i >= len(args) {
			return nil, nil, fmt.Errorf("arity mismatch calling %s", fn)
		}
		cs.env[p] = args[i]
	}
	if len(fn.FreeVars) > 0 {
		var bind []*Val
		if len(x.bindStack) > 0 {
			bind = x.bindStack[len(x.bindStack)-1]
		}
		if len(bind) != len(fn.FreeVars) {
			return nil, nil, fmt.Errorf("closure %s called without its bindings", fn)
		}
		for i, fv := range fn.FreeVars {
			cs.env[fv] = bind[i]
		}
	}
	fr.entry = cs
	topo[0].in = []*edgeState{{st: cs, predIdx: -1}}
	for _, n := range topo {
		if len(n.in) == 0 {
			continue // unreachable
		}
		if err := x.runNode(fr, n); err != nil {
			return nil, nil, fmt.Errorf("%s block %d: %w", fn.Name(), n.b.Index, err)
		}
		n.in = nil
	}
	if len(fr.rets) == 0 {
		// no return reachable (all paths panic): produce a dead state
		dead := cs.clone()
		dead.pc = x.tb.False
		var vals []*Val
		res := fn.Signature.Results()
		for i := 0; i < res.Len(); i++ {
			vals = append(vals, x.zero(res.At(i).Type()))
		}
		return vals, dead, nil
	}
	// merge returns
	var ins []*edgeState
	for _, r := range fr.rets {
		ins = append(ins, &edgeState{st: r.st})
	}
	out, err := x.mergeStates(ins)
	if err != nil {
		return nil, nil, err
	}
	nres := len(fr.rets[0].vals)
	vals := make([]*Val, nres)
	retLocal := localConds(x.tb, ins)
	for j := 0; j < nres; j++ {
		v := fr.rets[len(fr.rets)-1].vals[j]
		for i := len(fr.rets) - 2; i >= 0; i-- {
			m, err := x.mergeVal(retLocal[i], fr.rets[i].vals[j], v)
			if err != nil {
				return nil, nil, fmt.Errorf("merging results of %s: %w", fn.Name(), err)
			}
			v = m
		}
		vals[j] = v
	}
	// give the caller its env back
	// Every path of the callee that does not return was turned into an obligation and then
	// assumed away, so under the accumulated assumptions the callee returns: the caller's
	// path condition is unchanged (and stays syntactically small).
	rpc := st.pc
	if out.pc.IsFalse() {
		rpc = x.tb.False
	}
	// A cut loop ends its body paths at the back edge without a return, so the exit
	// conditions of such loops are genuinely part of the return path condition.
	for _, l := range fr.loops {
		if l.spec != nil && len(l.spec.Invs) > 0 {
			rpc = x.tb.And(st.pc, out.pc)
			break
		}
	}
	ret := &State{env: st.env, heaps: out.heaps, pc: rpc, base: st.base, top: out.top, havocs: out.havocs}
	return vals, ret, nil
}

func (x *Exec) runNode(fr *frameRun, n *xnode) error {
	tb := x.tb
	switch n.kind {
	case 2: // unwinding assertion
		for _, in := range n.in {
			if x.cutLoops && x.ghost == 0 {
				// bounded harness with `cuts`: executions that iterate further are outside
				// the stated bound and are not followed
				x.cutCount++
				continue
			}
			x.oblige(in.st, "unwind", fmt.Sprintf("loop%d.unwind", n.loop.ord), n.b.Instrs[0].Pos(), tb.Not(x.full(in.st)))
			if x.ghost > 0 && !in.st.pc.IsFalse() {
				x.unsupported(fr.fn.Name(), fmt.Sprintf("ghost loop %d not fully unrolled", n.loop.ord))
			}
		}
		return nil
	case 1: // back edge into a cut loop: check invariants
		for _, in := range n.in {
			st := in.st.clone()
			// phi values along this edge
			phiVals := map[*ssa.Phi]*Val{}
			for _, instr := range n.b.Instrs {
				phi, ok := instr.(*ssa.Phi)
				if !ok {
					break
				}
				v, err := x.operand(st, phi.Edges[in.predIdx])
				if err != nil {
					return err
				}
				phiVals[phi] = v
			}
			for phi, v := range phiVals {
				st.env[phi] = v
			}
			if err := x.checkInvariants(fr, n.loop, st, "step"); err != nil {
				return err
			}
		}
		return nil
	}
	st, err := x.mergeStates(n.in)
	if err != nil {
		return err
	}
	if len(n.in) > 1 || len(n.succs) > 0 {
		st = st.clone()
	}
	if st.pc.IsFalse() {
		return nil
	}
	// Join of an if/else (or switch) region: when this block post-dominates its immediate
	// dominator, every path from the dominator arrives here, so the path condition is the
	// dominator's - instead of the syntactic disjunction of the branch conditions.
	if len(n.in) > 1 && os.Getenv("GOCV_NORESET") == "" {
		if d := n.b.Idom(); d != nil && fr.postDominates(n.b, d) && fr.hdr[n.b] == nil {
			if pc, ok := fr.nodeEntryPC[fmt.Sprintf("%d|%s", d.Index, n.ctx)]; ok {
				st.pc = pc
			}
		}
	}
	if fr.nodeEntryPC == nil {
		fr.nodeEntryPC = map[string]*Term{}
	}
	fr.nodeEntryPC[fmt.Sprintf("%d|%s", n.b.Index, n.ctx)] = st.pc
	// Leaving an unrolled loop that has no return/panic inside: every path through the loop
	// arrives here (the unwinding assertion was checked and assumed), so the path condition
	// is the one the loop was entered with - kept syntactically small on purpose.
	if len(n.in) > 1 && os.Getenv("GOCV_NORESET") == "" {
		if el := fr.exitedLoop(n); el != nil {
			if pc, ok := fr.loopEntryPC[fmt.Sprintf("%d|%s", el.header.Index, n.ctx)]; ok {
				if os.Getenv("GOCV_DEBUG") != "" {
					fmt.Fprintf(os.Stderr, "DEBUG: reset in %s block %d (%s) ins=%d: %s -> %s\n", fr.fn.Name(), n.b.Index, n.b.Comment, len(n.in), st.pc.Pretty(200), pc.Pretty(200))
				}
				st.pc = pc
			}
		}
	}
	l := fr.hdr[n.b]
	if l != nil && n.cnt[n.b.Index] == 0 && (l.spec == nil || len(l.spec.Invs) == 0) {
		ctx := map[int]int{}
		for k, v := range n.cnt {
			if k != n.b.Index {
				ctx[k] = v
			}
		}
		if fr.loopEntryPC == nil {
			fr.loopEntryPC = map[string]*Term{}
		}
		fr.loopEntryPC[fmt.Sprintf("%d|%s", n.b.Index, ctxKey(ctx))] = st.pc
	}
	cut := l != nil && l.spec != nil && len(l.spec.Invs) > 0
	// phis
	idx := 0
	if cut {
		// evaluate phis from entry edges, check init, havoc, assume
		var phis []*ssa.Phi
		for _, instr := range n.b.Instrs {
			phi, ok := instr.(*ssa.Phi)
			if !ok {
				break
			}
			phis = append(phis, phi)
			idx++
		}
		vals, err := x.phiMerge(n, phis)
		if err != nil {
			return err
		}
		for i, phi := range phis {
			st.env[phi] = vals[i]
		}
		if err := x.checkInvariants(fr, l, st, "init"); err != nil {
			return err
		}
		x.havocLoop(fr, l, st, phis)
		if err := x.assumeInvariants(fr, l, st); err != nil {
			return err
		}
		if x.ghost == 0 && len(l.spec.Uses) > 0 {
			largs, err := x.invArgs(fr, l, st)
			if err != nil {
				return err
			}
			var pargs []*Val
			for _, p := range fr.fn.Params {
				pargs = append(pargs, fr.entry.env[p])
			}
			for _, uf := range l.spec.Uses {
				_, ns, err := x.runFuncBind(uf, append(append([]*Val{}, pargs...), largs...), nil, st, nil)
				if err != nil {
					return err
				}
				st.heaps, st.top, st.havocs = ns.heaps, ns.top, ns.havocs
			}
		}
	} else {
		var phis []*ssa.Phi
		for _, instr := range n.b.Instrs {
			phi, ok := instr.(*ssa.Phi)
			if !ok {
				break
			}
			phis = append(phis, phi)
			idx++
		}
		if len(phis) > 0 {
			vals, err := x.phiMerge(n, phis)
			if err != nil {
				return err
			}
			for i, phi := range phis {
				st.env[phi] = vals[i]
			}
		}
	}
	for _, instr := range n.b.Instrs[idx:] {
		switch in := instr.(type) {
		case *ssa.If:
			c, err := x.operand(st, in.Cond)
			if err != nil {
				return err
			}
			ct := c.C[0]
			// path-sensitive folding: under the literals of the current path condition the
			// branch condition may already be decided (e.g. a value defined by a conditional
			// postcondition whose condition this path has taken)
			if !ct.IsConst() {
				lits, nlits := map[int]bool{}, map[int]bool{}
				for _, l := range conjuncts(x.full(st), nil) {
					lits[l.id] = true
					if l.Op == "not" {
						nlits[l.Args[0].id] = true
					} else {
						nlits[tb.Not(l).id] = true
					}
				}
				if len(lits) > 0 && len(lits) < 400 {
					if r := tb.RewriteUnder(ct, lits, nlits, map[int]*Term{}); r.IsConst() {
						ct = r
					} else if os.Getenv("GOCV_DEBUG_IF") != "" && x.ghost == 0 {
						fmt.Fprintf(os.Stderr, "IF %s: %s\n   under %d lits; full=%s\n", x.posStr(in.Pos()), r.Pretty(200), len(lits), x.full(st).Pretty(300))
					}
				}
			}
			for k, e := range n.succs {
				cond := ct
				if k == 1 {
					cond = tb.Not(ct)
				}
				npc := tb.And(st.pc, cond)
				if npc.IsFalse() {
					continue
				}
				ns := st
				if len(n.succs) > 1 {
					ns = st.clone()
				}
				ns.pc = npc
				e.to.in = append(e.to.in, &edgeState{st: ns, predIdx: e.predIdx, from: n})
			}
			return nil
		case *ssa.Jump:
			e := n.succs[0]
			e.to.in = append(e.to.in, &edgeState{st: st, predIdx: e.predIdx, from: n})
			return nil
		case *ssa.Return:
			var vals []*Val
			for _, r := range in.Results {
				v, err := x.operand(st, r)
				if err != nil {
					return err
				}
				vals = append(vals, v)
			}
			fr.rets = append(fr.rets, &retState{st: st, vals: vals})
			return nil
		case *ssa.Panic:
			if x.ghost == 0 {
				x.oblige(st, "safe", fmt.Sprintf("safe.panic@%s", x.posStr(in.Pos())), in.Pos(), tb.False)
			}
			return nil
		default:
			if err := x.step(fr, st, instr); err != nil {
				return fmt.Errorf("%s: %w", x.posStr(instr.Pos()), err)
			}
			if st.pc.IsFalse() {
				return nil
			}
		}
	}
	return fmt.Errorf("block without terminator")
}

// phiMerge computes phi values at a join from the incoming edge states.
func (x *Exec) phiMerge(n *xnode, phis []*ssa.Phi) ([]*Val, error) {
	out := make([]*Val, len(phis))
	local := localConds(x.tb, n.in)
	for pi, phi := range phis {
		var v *Val
		for i := len(n.in) - 1; i >= 0; i-- {
			in := n.in[i]
			if in.predIdx < 0 {
				return nil, fmt.Errorf("phi in entry block")
			}
			ov, err := x.operand(in.st, phi.Edges[in.predIdx])
			if err != nil {
				return nil, err
			}
			if v == nil {
				v = ov
				continue
			}
			m, err := x.mergeVal(local[i], ov, v)
			if err != nil {
				return nil, fmt.Errorf("phi %s: %w", phi.Name(), err)
			}
			v = m
		}
		out[pi] = v
	}
	return out, nil
}

// resolveLocal finds the SSA value that holds source variable `name` at loop header l.
func (x *Exec) resolveLocal(fr *frameRun, l *loopInfo, st *State, name string) (*Val, error) {
	// phis at the header first
	for _, instr := range l.header.Instrs {
		phi, ok := instr.(*ssa.Phi)
		if !ok {
			break
		}
		if phi.Comment == name {
			if v, ok := st.env[phi]; ok {
				return v, nil
			}
		}
	}
	// parameters
	for _, p := range fr.fn.Params {
		if p.Name() == name {
			return st.env[p], nil
		}
	}
	// latest DebugRef for that name in a block dominating the header
	var best *ssa.DebugRef
	for _, b := range fr.fn.Blocks {
		if !(b.Dominates(l.header)) || b == l.header {
			continue
		}
		for _, instr := range b.Instrs {
			d, ok := instr.(*ssa.DebugRef)
			if !ok || d.Object() == nil || d.Object().Name() != name {
				continue
			}
			if _, isVar := d.Object().(*types.Var); !isVar {
				continue
			}
			if best == nil || best.Block().Dominates(b) {
				best = d
			}
		}
	}
	if best == nil {
		return nil, fmt.Errorf("STALE-CONTRACT: loop %d of %s: unknown local %q", l.ord, fr.fn.Name(), name)
	}
	v, err := x.operand(st, best.X)
	if err != nil {
		return nil, err
	}
	if best.IsAddr {
		pt := best.X.Type().Underlying().(*types.Pointer).Elem()
		return x.load(st, x.addrOf(v, pt), pt), nil
	}
	return v, nil
}

func (x *Exec) invArgs(fr *frameRun, l *loopInfo, st *State) ([]*Val, error) {
	var args []*Val
	for _, name := range l.spec.Locals {
		v, err := x.resolveLocal(fr, l, st, name)
		if err != nil {
			return nil, err
		}
		args = append(args, v)
	}
	return args, nil
}

func (x *Exec) checkInvariants(fr *frameRun, l *loopInfo, st *State, phase string) error {
	if x.ghost > 0 {
		return nil
	}
	args, err := x.invArgs(fr, l, st)
	if err != nil {
		return err
	}
	for j, clo := range fr.invs[l.ord] {
		g, err := x.callClosureBool(st, clo, args, false)
		if err != nil {
			return err
		}
		x.oblige(st, "loop", fmt.Sprintf("loop%d.%s.%d", l.ord, phase, j), l.header.Instrs[0].Pos(), g)
	}
	return nil
}

func (x *Exec) assumeInvariants(fr *frameRun, l *loopInfo, st *State) error {
	args, err := x.invArgs(fr, l, st)
	if err != nil {
		return err
	}
	for _, clo := range fr.invs[l.ord] {
		g, err := x.callClosureBool(st, clo, args, true)
		if err != nil {
			return err
		}
		x.assumeIn(st, g)
	}
	return nil
}

// havocLoop forgets everything the loop body may change: the header's phis, the heap
// components written inside the loop (restricted to the unit's frame and to objects
// allocated since entry) and the allocation frontier.
func (x *Exec) havocLoop(fr *frameRun, l *loopInfo, st *State, phis []*ssa.Phi) {
	for _, phi := range phis {
		nv := x.fresh(phi.Type(), "loop_"+phi.Comment)
		if old := st.env[phi]; old != nil {
			nv.A = nil
			if old.A != nil {
				// interior pointers cannot be havocked soundly
				x.unsupported(fr.fn.Name(), "loop-carried interior pointer "+phi.Name())
			}
			nv.Fn, nv.Bind = old.Fn, old.Bind
		}
		st.env[phi] = nv
		// the hidden index of a `for i := range s` loop starts at -1 and is only ever
		// incremented while the incremented value is below len(s): it is never below -1
		if phi.Comment == "rangeindex" && len(nv.C) == 1 && len(phi.Edges) >= 2 {
			if c, ok := phi.Edges[0].(*ssa.Const); ok && c.Value != nil && c.Int64() == -1 {
				x.assumeIn(st, x.tb.Cmp("bvsle", x.tb.BV(64, ^uint64(0)), nv.C[0]))
				// ... and every value it took was below a slice length (< 2^48)
				x.assumeIn(st, x.tb.Cmp("bvslt", nv.C[0], x.tb.BV(64, 1<<sizeBits)))
			}
		}
	}
	// the frontier may move (objects allocated by earlier iterations)
	oldTop := st.top
	x.bumpTop(st)
	for _, phi := range phis {
		for _, f := range x.validity(st.env[phi], x.refOK(st)) {
			x.fact(f)
		}
	}
	written := x.writtenPrefixes(fr.fn, l.body)
	x.havoc(st, func(name string) bool { return prefixWritten(written, name) }, x.framePred(oldTop))
}

// framePred: a location may have been changed only if it lies in the unit's frame or
// belongs to an object allocated after the unit's entry.
func (x *Exec) framePred(oldTop *Term) func(name string, key []*Term) *Term {
	tb := x.tb
	frame := x.frame
	hasFrame := x.hasFrame
	top0 := x.top0
	return func(name string, key []*Term) *Term {
		if !hasFrame {
			return tb.True
		}
		c := tb.Cmp("bvult", top0, key[0]) // allocated after entry
		for _, f := range frame {
			if !frameCovers(f, name) {
				continue
			}
			in := tb.Eq(key[0], f.ref)
			if f.lo != nil && len(key) > 1 {
				in = tb.And(in, tb.Cmp("bvult", tb.Sub(key[1], f.lo), tb.Sub(f.hi, f.lo)))
			}
			c = tb.Or(c, in)
		}
		return c
	}
}

func frameCovers(f frameLoc, heapName string) bool {
	if heapName == f.prefix {
		return true
	}
	if strings.HasPrefix(heapName, f.prefix) {
		r := heapName[len(f.prefix):]
		return r[0] == '#' || r[0] == '.' || r[0] == '['
	}
	return false
}

func prefixWritten(w map[string]bool, name string) bool {
	if w["*"] {
		return true
	}
	for p := range w {
		if name == p || strings.HasPrefix(name, p) && (name[len(p)] == '#' || name[len(p)] == '.' || name[len(p)] == '[') {
			return true
		}
	}
	return false
}

// writtenPrefixes over-approximates the heap components a set of blocks may write.
func (x *Exec) writtenPrefixes(fn *ssa.Function, blocks map[*ssa.BasicBlock]bool) map[string]bool {
	w := map[string]bool{}
	for b := range blocks {
		for _, instr := range b.Instrs {
			switch in := instr.(type) {
			case *ssa.Store:
				for _, p := range storePrefixes(in.Addr) {
					w[p] = true
				}
			case *ssa.MapUpdate:
				w["M:"+typeKey(in.Map.Type().Underlying())] = true
			case ssa.CallInstruction:
				x.calleeWrites(in, w)
			}
		}
	}
	return w
}

func storePrefixes(a ssa.Value) []string {
	switch v := a.(type) {
	case *ssa.FieldAddr:
		st := v.X.Type().Underlying().(*types.Pointer).Elem()
		f := st.Underlying().(*types.Struct).Field(v.Field)
		var out []string
		for _, base := range storePrefixes(v.X) {
			out = append(out, base+"."+f.Name())
		}
		return out
	case *ssa.IndexAddr:
		switch t := v.X.Type().Underlying().(type) {
		case *types.Slice:
			return []string{elemPrefix(t.Elem())}
		case *types.Pointer: // pointer to array
			var out []string
			for _, base := range storePrefixes(v.X) {
				out = append(out, base)
			}
			return out
		}
	}
	pt, ok := a.Type().Underlying().(*types.Pointer)
	if !ok {
		return []string{"*"}
	}
	return []string{heapPrefix(pt.Elem())}
}
