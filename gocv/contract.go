package main

// Contract files: comment-only Go files (build tag verif) holding //@ lines.  They are
// translated mechanically into ordinary Go functions (one per clause) that are overlaid
// on the package at load time, type-checked by go/types and executed symbolically by the
// same engine as the code (and natively by replay tests).

import (
	"bytes"
	"fmt"
	"go/ast"
	"go/format"
	"go/parser"
	"go/token"
	"os"
	"regexp"
	"strconv"
	"strings"

	"golang.org/x/tools/go/ssa"
)

type LoopSpec struct {
	UseText  []string
	Uses     []*ssa.Function
	Unroll   int
	InvText  []string
	Locals   []string // names, in the order of the generated closure parameters
	LocalTys []string
	Invs     []*ssa.Function
}

type Contract struct {
	Key         string // ssa function name, e.g. (*pkg.T).M or pkg.F
	Short       string // T.M or F
	Mangled     string
	Pkg         string // package name
	Header      string
	Recv        string // "d *Decoder" or ""
	RecvIface   bool
	Params      string // "dest []byte, v uint64" (receiver first)
	ParamNames  []string
	Results     string
	ResultNames []string
	ReqText     []string
	EnsText     []string
	ModText     string
	LoopsSrc    map[int]*LoopSpec
	Trusted     bool
	Inline      bool
	Nilable     bool
	NoAlloc     bool
	AllocText   string
	Opaque      bool
	ExternPkg   string // contract of a function in another (unverified) package: trusted
	Harness     bool
	Inlines     []string
	Outer       int      // unroll bound of outermost loops (0: same as every loop)
	NoFrame     bool     // no frame is specified: the unit's writes are not checked against one, and the contract cannot be used by callers
	Cuts        bool     // loops iterating beyond the unroll bound are cut, not asserted absent (the bound restricts the inputs)
	Abstracts   []string // spec functions used through their contract (result = uninterpreted function of the arguments) in this harness
	Bounded     string // description of the input-domain bound of a bounded harness
	UnrollTo    int
	UseText     []string
	DecrText    string
	Uses        []*ssa.Function
	Decr        *ssa.Function
	File        string
	Line        int

	Reqs  []*ssa.Function
	Ens   []*ssa.Function
	Mod   *ssa.Function
	Alloc *ssa.Function
	Loops map[int]*LoopSpec
	Fn    *ssa.Function
}

var clauseKW = map[string]bool{"func": true, "requires": true, "ensures": true, "modifies": true, "loop": true,
	"trusted": true, "inline": true, "nilable": true, "noalloc": true, "alloc-bounded": true, "use": true, "decreases": true, "opaque": true, "harness": true, "inlines": true, "abstracts": true, "cuts": true, "noframe": true, "outer": true, "bounded": true, "extern": true, "import": true}

// parseContractFile extracts the contracts of one file.
// contractImports collects `//@ import alias "path"` directives of a contract file.
func contractImports(src []byte) []string {
	var out []string
	for _, ln := range strings.Split(string(src), "\n") {
		t := strings.TrimSpace(ln)
		if strings.HasPrefix(t, "//@") {
			b := strings.TrimSpace(strings.TrimPrefix(t, "//@"))
			if strings.HasPrefix(b, "import ") {
				out = append(out, strings.TrimSpace(strings.TrimPrefix(b, "import ")))
			}
		}
	}
	return out
}

func parseContractFile(path string, src []byte) ([]*Contract, string, error) {
	lines := strings.Split(string(src), "\n")
	pkg := ""
	var items [][2]string // keyword, text
	var itemLine []int
	for i, ln := range lines {
		t := strings.TrimSpace(ln)
		if strings.HasPrefix(t, "package ") && pkg == "" {
			pkg = strings.TrimSpace(strings.TrimPrefix(t, "package "))
			continue
		}
		if !strings.HasPrefix(t, "//@") {
			continue
		}
		body := strings.TrimSpace(strings.TrimPrefix(t, "//@"))
		if body == "" {
			continue
		}
		// strip trailing comment "// ..."
		if j := strings.Index(body, " // "); j >= 0 {
			body = strings.TrimSpace(body[:j])
		}
		kw := body
		if j := strings.IndexAny(body, " \t"); j >= 0 {
			kw = body[:j]
		}
		if clauseKW[kw] {
			items = append(items, [2]string{kw, strings.TrimSpace(body[len(kw):])})
			itemLine = append(itemLine, i+1)
		} else {
			if len(items) == 0 {
				return nil, "", fmt.Errorf("%s:%d: continuation line without clause", path, i+1)
			}
			items[len(items)-1][1] += " " + body
		}
	}
	var out []*Contract
	var cur *Contract
	for k, it := range items {
		kw, text := it[0], it[1]
		if kw == "import" {
			continue
		}
		if kw == "extern" {
			j := strings.Index(text, " func ")
			if j < 0 {
				return nil, "", fmt.Errorf("%s:%d: extern <import path> func <header>", path, itemLine[k])
			}
			c, err := parseHeader(pkg, strings.TrimSpace(text[j+6:]))
			if err != nil {
				return nil, "", fmt.Errorf("%s:%d: %v", path, itemLine[k], err)
			}
			c.ExternPkg = strings.TrimSpace(text[:j])
			c.Trusted = true
			c.Mangled = "ext_" + strings.NewReplacer("/", "_", ".", "_", "-", "_").Replace(c.ExternPkg) + "_" + c.Mangled
			c.File, c.Line = path, itemLine[k]
			cur = c
			out = append(out, c)
			continue
		}
		if kw == "func" {
			c, err := parseHeader(pkg, text)
			if err != nil {
				return nil, "", fmt.Errorf("%s:%d: %v", path, itemLine[k], err)
			}
			c.File, c.Line = path, itemLine[k]
			cur = c
			out = append(out, c)
			continue
		}
		if cur == nil {
			return nil, "", fmt.Errorf("%s:%d: clause outside func", path, itemLine[k])
		}
		switch kw {
		case "requires":
			cur.ReqText = append(cur.ReqText, text)
		case "ensures":
			cur.EnsText = append(cur.EnsText, text)
		case "modifies":
			if cur.ModText != "" {
				cur.ModText += ", "
			}
			cur.ModText += text
		case "trusted":
			cur.Trusted = true
		case "inline":
			cur.Inline = true
		case "nilable":
			cur.Nilable = true
		case "noalloc":
			cur.NoAlloc = true
		case "opaque":
			cur.Opaque = true
		case "harness":
			cur.Harness = true
		case "inlines":
			for _, n := range strings.Split(text, ",") {
				cur.Inlines = append(cur.Inlines, strings.TrimSpace(n))
			}
		case "outer":
			n, err := strconv.Atoi(strings.TrimSpace(text))
			if err != nil {
				return nil, "", fmt.Errorf("%s:%d: outer <unroll>", path, itemLine[k])
			}
			cur.Outer = n
		case "noframe":
			cur.NoFrame = true
		case "cuts":
			cur.Cuts = true
		case "abstracts":
			for _, n := range strings.Split(text, ",") {
				cur.Abstracts = append(cur.Abstracts, strings.TrimSpace(n))
			}
		case "bounded":
			// bounded <unroll> <description>
			f := strings.SplitN(text, " ", 2)
			n, err := strconv.Atoi(f[0])
			if err != nil || len(f) < 2 {
				return nil, "", fmt.Errorf("%s:%d: bounded <unroll> <description>", path, itemLine[k])
			}
			cur.UnrollTo = n
			cur.Bounded = f[1]
		case "use":
			cur.UseText = append(cur.UseText, text)
		case "decreases":
			cur.DecrText = text
		case "alloc-bounded":
			cur.AllocText = strings.TrimSpace(strings.TrimPrefix(text, "by"))
		case "loop":
			m := loopRe.FindStringSubmatch(text)
			if m == nil {
				return nil, "", fmt.Errorf("%s:%d: bad loop clause %q", path, itemLine[k], text)
			}
			ord, _ := strconv.Atoi(m[1])
			ls := cur.LoopsSrc[ord]
			if ls == nil {
				ls = &LoopSpec{}
				cur.LoopsSrc[ord] = ls
			}
			rest := strings.TrimSpace(m[3])
			switch m[2] {
			case "unroll":
				n, err := strconv.Atoi(rest)
				if err != nil {
					return nil, "", fmt.Errorf("%s:%d: bad unroll bound", path, itemLine[k])
				}
				ls.Unroll = n
			case "locals":
				for _, d := range splitTop(rest) {
					d = strings.TrimSpace(d)
					j := strings.IndexAny(d, " \t")
					if j < 0 {
						return nil, "", fmt.Errorf("%s:%d: bad local declaration %q", path, itemLine[k], d)
					}
					ls.Locals = append(ls.Locals, d[:j])
					ls.LocalTys = append(ls.LocalTys, strings.TrimSpace(d[j:]))
				}
			case "invariant":
				ls.InvText = append(ls.InvText, rest)
			case "use":
				ls.UseText = append(ls.UseText, rest)
			}
		}
	}
	return out, pkg, nil
}

var loopRe = regexp.MustCompile(`^(\d+)\s*:\s*(unroll|locals|invariant|use)\s*(.*)$`)

// splitTop splits on commas that are not nested in brackets.
func splitTop(s string) []string {
	var out []string
	depth := 0
	start := 0
	for i, c := range s {
		switch c {
		case '(', '[', '{':
			depth++
		case ')', ']', '}':
			depth--
		case ',':
			if depth == 0 {
				out = append(out, s[start:i])
				start = i + 1
			}
		}
	}
	if strings.TrimSpace(s[start:]) != "" {
		out = append(out, s[start:])
	}
	return out
}

func parseHeader(pkg, text string) (*Contract, error) {
	src := "package p\nfunc " + text + " {}\n"
	fset := token.NewFileSet()
	f, err := parser.ParseFile(fset, "hdr.go", src, 0)
	if err != nil {
		return nil, fmt.Errorf("bad func header %q: %v", text, err)
	}
	fd := f.Decls[0].(*ast.FuncDecl)
	c := &Contract{Pkg: pkg, Header: text, LoopsSrc: map[int]*LoopSpec{}}
	txt := func(n ast.Node) string {
		var b bytes.Buffer
		format.Node(&b, fset, n)
		return b.String()
	}
	name := fd.Name.Name
	var params []string
	if fd.Recv != nil && len(fd.Recv.List) == 1 {
		r := fd.Recv.List[0]
		rn := "recv"
		if len(r.Names) == 1 {
			rn = r.Names[0].Name
		}
		rt := txt(r.Type)
		c.Recv = rn + " " + rt
		params = append(params, rn+" "+rt)
		c.ParamNames = append(c.ParamNames, rn)
		base := strings.TrimPrefix(rt, "*")
		c.Short = base + "." + name
		c.Mangled = strings.NewReplacer("[", "_", "]", "_", ".", "_").Replace(base) + "_" + name
		if strings.HasPrefix(rt, "*") {
			c.Key = "(*" + "%PKG%." + base + ")." + name
		} else {
			c.Key = "(%PKG%." + base + ")." + name
		}
	} else {
		c.Short = name
		c.Mangled = name
		c.Key = "%PKG%." + name
	}
	k := 0
	for _, p := range fd.Type.Params.List {
		t := txt(p.Type)
		if len(p.Names) == 0 {
			k++
			n := fmt.Sprintf("p%d", k)
			params = append(params, n+" "+t)
			c.ParamNames = append(c.ParamNames, n)
		}
		for _, n := range p.Names {
			params = append(params, n.Name+" "+t)
			c.ParamNames = append(c.ParamNames, n.Name)
		}
	}
	c.Params = strings.Join(params, ", ")
	var results []string
	if fd.Type.Results != nil {
		k := 0
		for _, p := range fd.Type.Results.List {
			t := txt(p.Type)
			if len(p.Names) == 0 {
				k++
				n := fmt.Sprintf("r%d", k)
				results = append(results, n+" "+t)
				c.ResultNames = append(c.ResultNames, n)
			}
			for _, n := range p.Names {
				results = append(results, n.Name+" "+t)
				c.ResultNames = append(c.ResultNames, n.Name)
			}
		}
	}
	c.Results = strings.Join(results, ", ")
	return c, nil
}

// rewriteExpr hoists old(e) sub-expressions and expands forall(i, lo, hi, P).
func rewriteExpr(text string) (expr string, olds []string, err error) {
	e, perr := parser.ParseExpr(text)
	if perr != nil {
		return "", nil, fmt.Errorf("cannot parse %q: %v", text, perr)
	}
	fset := token.NewFileSet()
	show := func(n ast.Node) string {
		var b bytes.Buffer
		format.Node(&b, fset, n)
		return b.String()
	}
	var rw func(n ast.Expr, bound map[string]bool) ast.Expr
	rwList := func(l []ast.Expr, bound map[string]bool) {
		for i := range l {
			l[i] = rw(l[i], bound)
		}
	}
	rw = func(n ast.Expr, bound map[string]bool) ast.Expr {
		switch v := n.(type) {
		case *ast.CallExpr:
			if id, ok := v.Fun.(*ast.Ident); ok {
				switch id.Name {
				case "old":
					if len(v.Args) != 1 {
						err = fmt.Errorf("old takes one argument")
						return n
					}
					// must not mention bound variables
					bad := false
					ast.Inspect(v.Args[0], func(m ast.Node) bool {
						if i, ok := m.(*ast.Ident); ok && bound[i.Name] {
							bad = true
						}
						return true
					})
					if bad {
						err = fmt.Errorf("old(...) mentions a bound variable: %s", show(v))
						return n
					}
					olds = append(olds, show(v.Args[0]))
					return ast.NewIdent(fmt.Sprintf("old_%d", len(olds)-1))
				case "forall":
					if len(v.Args) != 4 {
						err = fmt.Errorf("forall(i, lo, hi, P) takes four arguments")
						return n
					}
					iv, ok := v.Args[0].(*ast.Ident)
					if !ok {
						err = fmt.Errorf("forall: first argument must be an identifier")
						return n
					}
					nb := map[string]bool{iv.Name: true}
					for k := range bound {
						nb[k] = true
					}
					lo := rw(v.Args[1], bound)
					hi := rw(v.Args[2], bound)
					body := rw(v.Args[3], nb)
					fl := &ast.FuncLit{
						Type: &ast.FuncType{
							Params:  &ast.FieldList{List: []*ast.Field{{Names: []*ast.Ident{ast.NewIdent(iv.Name)}, Type: ast.NewIdent("int")}}},
							Results: &ast.FieldList{List: []*ast.Field{{Type: ast.NewIdent("bool")}}},
						},
						Body: &ast.BlockStmt{List: []ast.Stmt{&ast.ReturnStmt{Results: []ast.Expr{body}}}},
					}
					return &ast.CallExpr{Fun: ast.NewIdent("gocv_forall"), Args: []ast.Expr{lo, hi, fl}}
				}
			}
			v.Fun = rw(v.Fun, bound)
			rwList(v.Args, bound)
			return v
		case *ast.BinaryExpr:
			v.X = rw(v.X, bound)
			v.Y = rw(v.Y, bound)
			return v
		case *ast.UnaryExpr:
			v.X = rw(v.X, bound)
			return v
		case *ast.ParenExpr:
			v.X = rw(v.X, bound)
			return v
		case *ast.SelectorExpr:
			v.X = rw(v.X, bound)
			return v
		case *ast.IndexExpr:
			v.X = rw(v.X, bound)
			v.Index = rw(v.Index, bound)
			return v
		case *ast.SliceExpr:
			v.X = rw(v.X, bound)
			if v.Low != nil {
				v.Low = rw(v.Low, bound)
			}
			if v.High != nil {
				v.High = rw(v.High, bound)
			}
			if v.Max != nil {
				v.Max = rw(v.Max, bound)
			}
			return v
		case *ast.StarExpr:
			v.X = rw(v.X, bound)
			return v
		case *ast.TypeAssertExpr:
			v.X = rw(v.X, bound)
			return v
		}
		return n
	}
	e = rw(e, map[string]bool{})
	if err != nil {
		return "", nil, err
	}
	return show(e), olds, nil
}

func underscoreUse(names []string) string {
	var sb strings.Builder
	for _, n := range names {
		if n != "_" {
			fmt.Fprintf(&sb, "\t_ = %s\n", n)
		}
	}
	return sb.String()
}

// genContractCode renders the Go functions of one contract.
func genContractCode(c *Contract) (string, error) {
	var sb strings.Builder
	m := "gocv_" + c.Mangled
	fmt.Fprintf(&sb, "// ---- %s (%s:%d)\n", c.Header, c.File, c.Line)
	for k, t := range c.ReqText {
		e, olds, err := rewriteExpr(t)
		if err != nil {
			return "", fmt.Errorf("%s requires %d: %v", c.Short, k, err)
		}
		if len(olds) > 0 {
			return "", fmt.Errorf("%s requires %d: old() in a precondition", c.Short, k)
		}
		fmt.Fprintf(&sb, "func %s_req%d(%s) bool {\n\treturn %s\n}\n", m, k, c.Params, e)
	}
	two := func(name, inner, innerParams, text string) error {
		e, olds, err := rewriteExpr(text)
		if err != nil {
			return fmt.Errorf("%s %s: %v", c.Short, name, err)
		}
		fmt.Fprintf(&sb, "func %s_%s(%s) func(%s) bool {\n", m, name, c.Params, innerParams)
		for i, o := range olds {
			fmt.Fprintf(&sb, "\told_%d := %s\n", i, o)
		}
		fmt.Fprintf(&sb, "\treturn func(%s) bool {\n\t\treturn %s\n\t}\n}\n", innerParams, e)
		return nil
	}
	for k, t := range c.EnsText {
		if err := two(fmt.Sprintf("ens%d", k), "", c.Results, t); err != nil {
			return "", err
		}
	}
	if c.ModText != "" {
		var locs []string
		for _, l := range splitTop(c.ModText) {
			l = strings.TrimSpace(l)
			e, perr := parser.ParseExpr(l)
			if perr != nil {
				return "", fmt.Errorf("%s modifies: cannot parse %q", c.Short, l)
			}
			switch e.(type) {
			case *ast.SliceExpr:
				locs = append(locs, l)
			case *ast.StarExpr:
				locs = append(locs, strings.TrimPrefix(l, "*"))
			default:
				locs = append(locs, "&"+l)
			}
		}
		fmt.Fprintf(&sb, "func %s_mod(%s) {\n\tgocv_mod(%s)\n}\n", m, c.Params, strings.Join(locs, ", "))
	}
	for k, t := range c.UseText {
		fmt.Fprintf(&sb, "func %s_use%d(%s) {\n\t%s\n}\n", m, k, c.Params, t)
	}
	if c.DecrText != "" {
		fmt.Fprintf(&sb, "func %s_decr(%s) int {\n\treturn %s\n}\n", m, c.Params, c.DecrText)
	}
	if c.AllocText != "" {
		e, _, err := rewriteExpr(c.AllocText)
		if err != nil {
			return "", err
		}
		fmt.Fprintf(&sb, "func %s_alloc(%s) int {\n\treturn %s\n}\n", m, c.Params, e)
	}
	for ord, ls := range c.LoopsSrc {
		var lp []string
		for i := range ls.Locals {
			lp = append(lp, ls.Locals[i]+" "+ls.LocalTys[i])
		}
		for k, t := range ls.InvText {
			if err := two(fmt.Sprintf("loop%d_inv%d", ord, k), "", strings.Join(lp, ", "), t); err != nil {
				return "", err
			}
		}
		for k, t := range ls.UseText {
			all := c.Params
			if len(lp) > 0 {
				if all != "" {
					all += ", "
				}
				all += strings.Join(lp, ", ")
			}
			fmt.Fprintf(&sb, "func %s_loop%d_use%d(%s) {\n\t%s\n}\n", m, ord, k, all, t)
		}
	}
	return sb.String(), nil
}

// bindContract resolves the generated functions in the SSA package.
func bindContract(c *Contract, pkg *ssa.Package) error {
	m := "gocv_" + c.Mangled
	for k := range c.ReqText {
		f := pkg.Func(fmt.Sprintf("%s_req%d", m, k))
		if f == nil {
			return fmt.Errorf("missing generated function for %s requires %d", c.Short, k)
		}
		c.Reqs = append(c.Reqs, f)
	}
	for k := range c.EnsText {
		f := pkg.Func(fmt.Sprintf("%s_ens%d", m, k))
		if f == nil {
			return fmt.Errorf("missing generated function for %s ensures %d", c.Short, k)
		}
		c.Ens = append(c.Ens, f)
	}
	if c.ModText != "" {
		c.Mod = pkg.Func(m + "_mod")
	}
	if c.AllocText != "" {
		c.Alloc = pkg.Func(m + "_alloc")
	}
	for k := range c.UseText {
		c.Uses = append(c.Uses, pkg.Func(fmt.Sprintf("%s_use%d", m, k)))
	}
	if c.DecrText != "" {
		c.Decr = pkg.Func(m + "_decr")
	}
	c.Loops = map[int]*LoopSpec{}
	for ord, ls := range c.LoopsSrc {
		for k := range ls.InvText {
			f := pkg.Func(fmt.Sprintf("%s_loop%d_inv%d", m, ord, k))
			if f == nil {
				return fmt.Errorf("missing generated invariant function")
			}
			ls.Invs = append(ls.Invs, f)
		}
		for k := range ls.UseText {
			ls.Uses = append(ls.Uses, pkg.Func(fmt.Sprintf("%s_loop%d_use%d", m, ord, k)))
		}
		c.Loops[ord] = ls
	}
	return nil
}

func readFileOr(path string) []byte {
	b, err := os.ReadFile(path)
	if err != nil {
		return nil
	}
	return b
}
