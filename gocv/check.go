package main

// `gocv check <property> quick|thorough`: verifies the dependency cone of a property,
// writes the evidence file, reports violations with replays.

import (
	"context"
	"encoding/json"
	"fmt"
	"os"
	"os/exec"
	"path/filepath"
	"regexp"
	"sort"
	"strconv"
	"strings"
	"time"

	"golang.org/x/tools/go/ssa"
)

func contextBG() context.Context { return context.Background() }

type PropSpec struct {
	Title       string   `json:"title"`
	Pkgs        []string `json:"pkgs"`
	Units       []string `json:"units"`        // regexps over contract keys and lemma names (roots)
	ThoroughAdd []string `json:"thorough_add"` // extra roots in the thorough tier
	PkgsThoroughAdd []string `json:"pkgs_thorough_add"` // extra packages in the thorough tier
	ExcludeQuick []string `json:"exclude_quick"` // roots left to the thorough tier
	Agree       int      `json:"agree"`        // solvers that must agree in the thorough tier (default 2)
	ListBound   int      `json:"listbound"`    // element bound of repeated fields in generated-code harnesses
	Level       string   `json:"level"`
	Explanation string   `json:"explanation"`
	Assumptions []string `json:"assumptions"`
	NotCovered  []string `json:"not_covered"`
	Bounded     []string `json:"bounded"`
	MinObligs   int      `json:"min_obligations"`
}

type KnownFinding struct {
	Property   string `json:"property"`
	Obligation string `json:"obligation"` // stable obligation id (no line numbers)
	Pattern    string `json:"obligation_pattern,omitempty"` // or: anchored regexp over stable ids (one defect showing in many generated units)
	What       string `json:"what"`
	Status     string `json:"status"` // "open" | "fixed"
	Commit     string `json:"commit,omitempty"`
}

var lineRe = regexp.MustCompile(`:\d+`)

// stableID removes line numbers from an obligation name.
func stableID(name string) string { return lineRe.ReplaceAllString(name, "") }

func verifRoot() string {
	if v := os.Getenv("VERIF_ROOT"); v != "" {
		return v
	}
	exe, err := os.Executable()
	if err == nil {
		d := filepath.Dir(filepath.Dir(exe))
		if _, err := os.Stat(filepath.Join(d, "propmap.json")); err == nil {
			return d
		}
	}
	return "/verif"
}

func checkMain(args []string) int {
	if len(args) >= 2 && args[0] == "--replay" {
		return replayMain(args[1])
	}
	if len(args) < 1 {
		fmt.Fprintln(os.Stderr, "usage: gocv check <property> [quick|thorough]")
		return 2
	}
	prop := args[0]
	tier := "quick"
	if len(args) > 1 {
		tier = args[1]
	}
	if t := os.Getenv("VERIF_TIER"); t != "" && len(args) < 2 {
		tier = t
	}
	seed := 0
	if s := os.Getenv("VERIF_SEED"); s != "" {
		seed, _ = strconv.Atoi(s)
	}
	root := verifRoot()
	repo := envOr("VERIF_REPO", "/repo")
	t0 := time.Now()
	var pm map[string]*PropSpec
	if b, err := os.ReadFile(filepath.Join(root, "propmap.json")); err != nil || json.Unmarshal(b, &pm) != nil {
		fmt.Fprintln(os.Stderr, "cannot read propmap.json")
		return 2
	}
	ps := pm[prop]
	if ps == nil {
		fmt.Fprintln(os.Stderr, "unknown property", prop)
		return 2
	}
	var known []KnownFinding
	if b, err := os.ReadFile(filepath.Join(root, "known_findings.json")); err == nil {
		json.Unmarshal(b, &known)
	}
	replayDir := filepath.Join(root, "replays", prop)
	os.MkdirAll(replayDir, 0o755)
	old, _ := filepath.Glob(filepath.Join(replayDir, "*.json"))
	for _, f := range old {
		os.Remove(f)
	}
	tmp, _ := os.MkdirTemp("", "gocv-")
	defer os.RemoveAll(tmp)
	so := solveOpts{timeoutS: 60, agree: 1, tmp: tmp, jobs: 14}
	if tier == "thorough" {
		so.timeoutS = 180
		so.agree = 2
		if ps.Agree > 0 {
			so.agree = ps.Agree
		}
	}
	violations := 0
	report := func(r *Replay) {
		r.Property = prop
		name := strings.NewReplacer("/", "_", "(", "", ")", "", "*", "", "#", "-", "@", "-", ":", "-", " ", "_").Replace(r.Obligation)
		if len(name) > 150 {
			name = name[:150]
		}
		p := filepath.Join(replayDir, name+".json")
		b, _ := json.MarshalIndent(r, "", " ")
		os.WriteFile(p, b, 0o644)
		violations++
		if r.NoInput {
			fmt.Printf("VIOLATION property=%s replay=%s no-failing-input-found\n", prop, p)
		} else {
			fmt.Printf("VIOLATION property=%s replay=%s\n", prop, p)
		}
	}
	if tier == "thorough" {
		ps.Pkgs = append(append([]string{}, ps.Pkgs...), ps.PkgsThoroughAdd...)
	}
	if ps.ListBound > 0 {
		listBoundDefault = ps.ListBound
	}
	w, err := LoadWorld(repo, filepath.Join(root, "spec"), ps.Pkgs, nil)
	if err != nil {
		// Does the repository itself still build?  If so the contracts no longer bind to
		// the code: report that as a violation without input; otherwise infrastructure.
		if repoBuilds(repo, ps.Pkgs) {
			fmt.Println("STALE-CONTRACT / contract functions do not type-check against the current code:")
			fmt.Println(err)
			report(&Replay{Obligation: prop + "#contracts-bind", Kind: "bind", Status: "error", Output: err.Error(), NoInput: true, Verdict: "CONTRACTS-DO-NOT-BIND"})
			writeEvidence(root, prop, tier, seed, ps, nil, nil, violations, time.Since(t0).Seconds(), []string{"contracts could not be bound: " + err.Error()}, nil)
			return 1
		}
		fmt.Fprintln(os.Stderr, "LOAD ERROR:", err)
		return 2
	}
	loadS := time.Since(t0).Seconds()
	// roots and dependency cone
	roots := append([]string{}, ps.Units...)
	if tier == "thorough" {
		roots = append(roots, ps.ThoroughAdd...)
	}
	var res []*regexp.Regexp
	for _, r := range roots {
		res = append(res, regexp.MustCompile(r))
	}
	var excl []*regexp.Regexp
	if tier != "thorough" {
		for _, r := range ps.ExcludeQuick {
			excl = append(excl, regexp.MustCompile(r))
		}
	}
	match := func(name string) bool {
		for _, r := range excl {
			if r.MatchString(name) {
				return false
			}
		}
		for _, r := range res {
			if r.MatchString(name) {
				return true
			}
		}
		return false
	}
	done := map[string]bool{}
	var units []*UnitResult
	var queue []string
	for _, c := range w.allContracts {
		if !c.RecvIface && match(c.Key) {
			queue = append(queue, c.Key)
		}
	}
	var lemmas []*ssa.Function
	for _, p := range w.pkgs {
		for name, m := range p.Members {
			if f, ok := m.(*ssa.Function); ok && strings.HasPrefix(name, "lemma_") && match(name) && w.contracts[f.String()] == nil {
				lemmas = append(lemmas, f)
			}
		}
	}
	sort.Slice(lemmas, func(i, j int) bool { return lemmas[i].Name() < lemmas[j].Name() })
	for _, f := range lemmas {
		u := w.VerifyUnit(f, nil)
		units = append(units, u)
		queue = append(queue, u.Contracts...)
	}
	for len(queue) > 0 {
		k := queue[0]
		queue = queue[1:]
		if done[k] {
			continue
		}
		done[k] = true
		c := w.contracts[k]
		if c == nil || c.RecvIface || c.Opaque {
			continue
		}
		u := w.VerifyUnit(c.Fn, c)
		units = append(units, u)
		queue = append(queue, u.Contracts...)
	}
	genS := time.Since(t0).Seconds() - loadS
	t1 := time.Now()
	SolveAll(units, so)
	solveS := time.Since(t1).Seconds()
	// classify
	knownHit := map[string]bool{}
	var failed []string
	for _, u := range units {
		for _, e := range append(append([]string{}, u.Errs...), u.Unsup...) {
			if strings.Contains(e, "STALE-CONTRACT") {
				fmt.Println(e)
			}
			report(&Replay{Obligation: u.Name + "#engine", Unit: u.Name, Kind: "engine", Status: "error", Output: e, NoInput: true, Verdict: "NOT-GENERATED"})
		}
		for _, o := range u.Obligs {
			if !o.Failed() {
				continue
			}
			sid := stableID(o.Name)
			isKnown := false
			for _, k := range known {
				if k.Status != "open" || k.Property != prop {
					continue
				}
				if k.Obligation != "" && k.Obligation == sid {
					isKnown = true
					if !knownHit[sid] {
						knownHit[sid] = true
						fmt.Printf("KNOWN-FINDING: property=%s %s: %s\n", prop, sid, k.What)
					}
				} else if k.Pattern != "" && matchWhole(k.Pattern, sid) {
					isKnown = true
					if !knownHit[k.Pattern] {
						knownHit[k.Pattern] = true
						fmt.Printf("KNOWN-FINDING: property=%s %s: %s\n", prop, k.Pattern, k.What)
					}
				}
			}
			if isKnown {
				continue
			}
			failed = append(failed, o.Name)
			var r *Replay
			if o.ExpectSat {
				r = &Replay{Obligation: o.Name, Unit: u.Name, Kind: o.Kind, Pos: o.Pos, Status: o.Status, Solver: o.Solver, NoInput: true,
					Verdict: "VACUOUS: the assumptions at this point are unsatisfiable (precondition contradictory or return unreachable)"}
			} else {
				r = buildReplay(w, u, o, so)
				runReplay(w, r, tmp)
			}
			report(r)
			fmt.Printf("  obligation %s (%s) %s: %s\n", o.Name, o.Pos, o.Status, r.Verdict)
			for _, in := range r.Inputs {
				fmt.Printf("    %s\n", in)
			}
		}
	}
	wall := time.Since(t0).Seconds()
	notes := []string{fmt.Sprintf("load %.1fs, VC generation %.1fs, solving %.1fs wall", loadS, genS, solveS)}
	writeEvidence(root, prop, tier, seed, ps, w, units, violations, wall, notes, knownHit)
	nob := 0
	for _, u := range units {
		nob += len(u.Obligs)
	}
	if ps.MinObligs > 0 && nob < ps.MinObligs {
		fmt.Printf("VIOLATION property=%s replay=%s no-failing-input-found\n", prop, filepath.Join(replayDir, "obligation-count.json"))
		b, _ := json.Marshal(map[string]any{"verdict": "fewer obligations generated than registered", "generated": nob, "registered_minimum": ps.MinObligs})
		os.WriteFile(filepath.Join(replayDir, "obligation-count.json"), b, 0o644)
		violations++
	}
	fmt.Printf("%s %s: %d units, %d obligations, %d violations, %.1fs\n", prop, tier, len(units), nob, violations, wall)
	if violations > 0 {
		return 1
	}
	return 0
}

func repoBuilds(repo string, pkgs []string) bool {
	args := []string{"build"}
	for _, p := range pkgs {
		if strings.HasPrefix(p, "mod:") {
			continue
		}
		if strings.HasPrefix(p, "gen:") {
			// generated-code packages exist only in the overlay: what must build is the plug-in
			p = "cmd/protoc-gen-fastmarshal"
		}
		if p == "." {
			args = append(args, ".")
		} else {
			args = append(args, "./"+strings.TrimPrefix(p, "./"))
		}
	}
	cmd := exec.Command("go", args...)
	cmd.Dir = repo
	cmd.Env = append(os.Environ(), "GOFLAGS=-mod=mod", "GOPROXY=off", "GOSUMDB=off", "GOTOOLCHAIN=local")
	return cmd.Run() == nil
}

func writeEvidence(root, prop, tier string, seed int, ps *PropSpec, w *World, units []*UnitResult, violations int, wall float64, notes []string, knownHit map[string]bool) {
	nob, ndis, ntriv := 0, 0, 0
	byBackend := map[string]int{}
	solverS := 0.0
	var fns []string
	var lemmas []string
	trusted := map[string]bool{}
	inlined := map[string]bool{}
	var samples []any
	var failedNames []string
	kinds := map[string]int{}
	for _, u := range units {
		if u.Kind == "function" {
			fns = append(fns, u.Name)
		} else {
			lemmas = append(lemmas, u.Name)
		}
		for _, t := range u.Trusted {
			trusted[t] = true
		}
		for c := range u.Calls {
			if strings.HasPrefix(c, "inlined: ") {
				inlined[strings.TrimPrefix(c, "inlined: ")] = true
			}
		}
		for _, o := range u.Obligs {
			nob++
			kinds[o.Kind]++
			if !o.Failed() {
				ndis++
				if o.Trivial {
					ntriv++
				}
				for _, s := range strings.Split(o.Solver, "+") {
					byBackend[s]++
				}
			} else {
				failedNames = append(failedNames, o.Name)
			}
			solverS += o.Seconds
			if len(samples) < 6 && !o.Trivial && (o.Kind == "post" || o.Kind == "assert" || o.Kind == "safe") && len(samples) < 6 && (nob%7 == 1) {
				samples = append(samples, map[string]any{"obligation": o.Name, "kind": o.Kind, "at": o.Pos, "status": o.Status, "solver": o.Solver, "seconds": round3(o.Seconds),
					"goal": o.Goal.Pretty(600), "hypotheses": o.NHyps + len(o.Extra)})
			}
		}
	}
	if len(samples) == 0 {
		for _, u := range units {
			for _, o := range u.Obligs {
				if len(samples) < 3 {
					samples = append(samples, map[string]any{"obligation": o.Name, "kind": o.Kind, "status": o.Status, "solver": o.Solver})
				}
			}
		}
	}
	sort.Strings(fns)
	sort.Strings(lemmas)
	tb := []string{
		"gocv: the hand-written SSA->QF_UFBV translation (loop cutting, frames, quantifier instantiation, state merging)",
		"go/ssa and go/types (golang.org/x/tools v0.29.0) represent the source faithfully; the Go compiler implements the spec",
		"z3 4.8.12 / z3 5.1.0 / cvc5 1.0 answer unsat only for unsatisfiable formulas",
		"GOARCH=amd64: int is 64 bits; every slice/string has len <= cap < 2^48 and its array fits below 2^48 elements",
		"spec functions in /verif/spec describe the protobuf wire format (written from the encoding spec)",
	}
	for t := range trusted {
		tb = append(tb, t)
	}
	sort.Strings(tb[5:])
	level := ps.Level
	if level == "" {
		level = "proof"
	}
	var known []string
	for k := range knownHit {
		known = append(known, k)
	}
	sort.Strings(known)
	if len(known) > 0 || len(ps.Bounded) > 0 || violations > 0 {
		if level == "proof" {
			level = "other"
		}
	}
	cov := map[string]any{
		"obligations":              nob,
		"discharged":               ndis,
		"discharged_by_simplifier": ntriv,
		"checker_cmd":              fmt.Sprintf("./check %s %s", prop, tier),
		"trusted_base":             tb,
		"functions_under_contract": fns,
		"lemma_harnesses":          lemmas,
		"inlined_callees":          sortedSet(inlined),
		"by_backend":               byBackend,
		"solver_s":                 round3(solverS),
		"obligation_kinds":         kinds,
		"samples":                  samples,
		"undischarged":             failedNames,
		"known_findings":           known,
		"notes":                    notes,
		"not_covered":              ps.NotCovered,
		"bounded":                  ps.Bounded,
		"integers":                 "bit-vectors of the real width (no mathematical-integer abstraction)",
	}
	if level == "other" {
		expl := ps.Explanation
		if expl == "" {
			expl = "deductive proof per function against contracts; see DESIGN.md"
		}
		if len(known) > 0 {
			expl += fmt.Sprintf(" | %d known finding(s) listed, not counted as discharged", len(known))
		}
		if violations > 0 {
			expl += fmt.Sprintf(" | %d violation(s) reported by this run", violations)
		}
		cov["explanation"] = expl
		cov["evaluations"] = nob
		cov["distinct_nontrivial"] = nob - ntriv
		cov["rule"] = "one evaluation = one proof obligation generated from the current source; non-trivial = needed a solver (not folded to true by the term simplifier)"
	}
	ev := map[string]any{
		"property_id": prop,
		"tier":        tier,
		"seed":        seed,
		"level":       level,
		"coverage":    cov,
		"assumptions": append(append([]string{}, ps.Assumptions...), tb...),
		"wall_s":      round3(wall),
		"violations":  violations,
	}
	os.MkdirAll(filepath.Join(root, "evidence"), 0o755)
	b, _ := json.MarshalIndent(ev, "", " ")
	os.WriteFile(filepath.Join(root, "evidence", prop+".json"), b, 0o644)
}

func round3(f float64) float64 { return float64(int(f*1000+0.5)) / 1000 }

func sortedSet(m map[string]bool) []string {
	var out []string
	for k := range m {
		out = append(out, k)
	}
	sort.Strings(out)
	return out
}

// replayMain re-runs a stored replay against the current tree.
func replayMain(path string) int {
	b, err := os.ReadFile(path)
	if err != nil {
		fmt.Fprintln(os.Stderr, err)
		return 2
	}
	var r Replay
	if json.Unmarshal(b, &r) != nil {
		fmt.Fprintln(os.Stderr, "not a replay file")
		return 2
	}
	fmt.Printf("obligation: %s\nverdict when recorded: %s\n", r.Obligation, r.Verdict)
	if r.TestSrc == "" {
		fmt.Printf("no executable replay (no failing input was found)\n%s\n", r.Output)
		return 1
	}
	root := verifRoot()
	repo := envOr("VERIF_REPO", "/repo")
	rel, _ := filepath.Rel("/repo", r.PkgDir)
	if strings.HasPrefix(r.PkgDir, repo) {
		rel, _ = filepath.Rel(repo, r.PkgDir)
	}
	w, err := LoadWorld(repo, filepath.Join(root, "spec"), []string{"./" + rel}, nil)
	if err != nil {
		fmt.Fprintln(os.Stderr, "LOAD ERROR:", err)
		return 2
	}
	tmp, _ := os.MkdirTemp("", "gocv-")
	defer os.RemoveAll(tmp)
	r.PkgDir = filepath.Join(repo, rel)
	runReplay(w, &r, tmp)
	fmt.Println(r.Verdict)
	fmt.Print(r.RunOutput)
	if r.Verdict == "REPLAY-CONFIRMED" {
		return 1
	}
	return 0
}

var patCache = map[string]*regexp.Regexp{}

func matchWhole(pat, s string) bool {
	re, ok := patCache[pat]
	if !ok {
		re = regexp.MustCompile("^(?:" + pat + ")$")
		patCache[pat] = re
	}
	return re.MatchString(s)
}
