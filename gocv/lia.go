package main

// Second encoding of an obligation: integers.  Every bit-vector term t of width n is
// translated to an integer expression I(t) with 0 <= I(t) < 2^n.  The translation is EXACT
// for constants, variables, uninterpreted applications, +, -, negation, multiplication by
// a constant, zero/sign extension, extraction, shifts by constants, masks 2^k-1, ite, = and
// the four comparisons (modular semantics via mod/div by constants, which are linear); any
// other operator (and/or/xor with non-mask operands, shifts by non-constants, general
// multiplication, division) is abstracted by a fresh integer variable per distinct term,
// constrained only to its range.  Abstraction can only lose information, so
//
//	unsat(integer script)  ==>  unsat(bit-vector script)
//
// and an `unsat` from this encoding discharges the obligation; `sat`/`unknown` mean nothing
// and fall through to the bit-vector solvers.  This is what makes the length/offset
// arithmetic (sums of sizes against buffer lengths) cheap: bit-blasting 64-bit adders and
// comparators is what the solvers time out on.

import (
	"fmt"
	"math/big"
	"strings"
)

type liaScript struct {
	tb     *TB
	decls  strings.Builder
	body   strings.Builder
	names  map[int]string // term id -> SMT name of its translation
	declV  map[string]bool
	declF  map[string]bool
	nabs   int
	ranged map[string]bool
}

func pow2(n int) string {
	return new(big.Int).Lsh(big.NewInt(1), uint(n)).String()
}

func (s *liaScript) rangeOf(name string, n int) {
	if s.ranged[name] {
		return
	}
	s.ranged[name] = true
	fmt.Fprintf(&s.body, "(assert (and (<= 0 %s) (< %s %s)))\n", name, name, pow2(n))
}

func isPow2Mask(v uint64) (int, bool) {
	// v == 2^k - 1, k >= 1
	if v == 0 {
		return 0, false
	}
	if v&(v+1) != 0 {
		return 0, false
	}
	k := 0
	for v != 0 {
		k++
		v >>= 1
	}
	return k, true
}

func (s *liaScript) def(t *Term, sortInt bool, expr string) string {
	name := fmt.Sprintf("i%d", t.id)
	srt := "Bool"
	if sortInt {
		srt = "Int"
	}
	fmt.Fprintf(&s.body, "(define-fun %s () %s %s)\n", name, srt, expr)
	s.names[t.id] = name
	return name
}

func (s *liaScript) signed(x string, n int) string {
	return fmt.Sprintf("(ite (>= %s %s) (- %s %s) %s)", x, pow2(n-1), x, pow2(n), x)
}

// tr translates a term (iteratively over the DAG).
func (s *liaScript) tr(root *Term) string {
	type frame struct {
		t *Term
		i int
	}
	stack := []frame{{root, 0}}
	for len(stack) > 0 {
		f := &stack[len(stack)-1]
		if _, ok := s.names[f.t.id]; ok {
			stack = stack[:len(stack)-1]
			continue
		}
		if f.i < len(f.t.Args) {
			a := f.t.Args[f.i]
			f.i++
			if _, ok := s.names[a.id]; !ok {
				stack = append(stack, frame{a, 0})
			}
			continue
		}
		s.one(f.t)
		stack = stack[:len(stack)-1]
	}
	return s.names[root.id]
}

func (s *liaScript) abstract(t *Term) {
	s.nabs++
	name := fmt.Sprintf("abs%d", t.id)
	if t.Sort == 0 {
		fmt.Fprintf(&s.decls, "(declare-fun %s () Bool)\n", name)
	} else {
		fmt.Fprintf(&s.decls, "(declare-fun %s () Int)\n", name)
		s.rangeOf(name, t.Sort)
	}
	s.names[t.id] = name
}

func (s *liaScript) one(t *Term) {
	a := func(i int) string { return s.names[t.Args[i].id] }
	n := t.Sort
	switch t.Op {
	case "true", "false":
		s.names[t.id] = t.Op
	case "const":
		s.names[t.id] = fmt.Sprintf("%d", t.Val)
	case "var":
		nm := smtName("v_" + t.Name)
		if !s.declV[nm] {
			s.declV[nm] = true
			if n == 0 {
				fmt.Fprintf(&s.decls, "(declare-fun %s () Bool)\n", nm)
			} else {
				fmt.Fprintf(&s.decls, "(declare-fun %s () Int)\n", nm)
				s.rangeOf(nm, n)
			}
		}
		s.names[t.id] = nm
	case "uf":
		nm := smtName("f_" + t.Name)
		if !s.declF[nm] {
			s.declF[nm] = true
			d := s.tb.ufs[t.Name]
			var as []string
			for _, x := range d.args {
				if x == 0 {
					as = append(as, "Bool")
				} else {
					as = append(as, "Int")
				}
			}
			r := "Int"
			if d.ret == 0 {
				r = "Bool"
			}
			fmt.Fprintf(&s.decls, "(declare-fun %s (%s) %s)\n", nm, strings.Join(as, " "), r)
		}
		var as []string
		for i := range t.Args {
			as = append(as, a(i))
		}
		name := s.def(t, n != 0, fmt.Sprintf("(%s %s)", nm, strings.Join(as, " ")))
		if n != 0 {
			s.rangeOf(name, n)
		}
	case "not":
		s.def(t, false, fmt.Sprintf("(not %s)", a(0)))
	case "and", "or":
		var as []string
		for i := range t.Args {
			as = append(as, a(i))
		}
		s.def(t, false, fmt.Sprintf("(%s %s)", t.Op, strings.Join(as, " ")))
	case "ite":
		s.def(t, n != 0, fmt.Sprintf("(ite %s %s %s)", a(0), a(1), a(2)))
	case "=":
		s.def(t, false, fmt.Sprintf("(= %s %s)", a(0), a(1)))
	case "bvult":
		s.def(t, false, fmt.Sprintf("(< %s %s)", a(0), a(1)))
	case "bvule":
		s.def(t, false, fmt.Sprintf("(<= %s %s)", a(0), a(1)))
	case "bvslt", "bvsle":
		w := t.Args[0].Sort
		op := "<"
		if t.Op == "bvsle" {
			op = "<="
		}
		s.def(t, false, fmt.Sprintf("(%s %s %s)", op, s.signed(a(0), w), s.signed(a(1), w)))
	case "bvadd":
		s.def(t, true, fmt.Sprintf("(mod (+ %s %s) %s)", a(0), a(1), pow2(n)))
	case "bvsub":
		s.def(t, true, fmt.Sprintf("(mod (- %s %s) %s)", a(0), a(1), pow2(n)))
	case "bvneg":
		s.def(t, true, fmt.Sprintf("(mod (- %s) %s)", a(0), pow2(n)))
	case "bvmul":
		switch {
		case t.Args[0].Op == "const":
			s.def(t, true, fmt.Sprintf("(mod (* %d %s) %s)", t.Args[0].Val, a(1), pow2(n)))
		case t.Args[1].Op == "const":
			s.def(t, true, fmt.Sprintf("(mod (* %d %s) %s)", t.Args[1].Val, a(0), pow2(n)))
		default:
			s.abstract(t)
		}
	case "zext":
		s.names[t.id] = a(0)
	case "sext":
		w := t.Args[0].Sort
		s.def(t, true, fmt.Sprintf("(ite (>= %s %s) (+ %s %s) %s)", a(0), pow2(w-1), a(0), new(big.Int).Sub(new(big.Int).Lsh(big.NewInt(1), uint(n)), new(big.Int).Lsh(big.NewInt(1), uint(w))).String(), a(0)))
	case "extract":
		hi, lo := t.P1, t.P2
		e := a(0)
		if lo > 0 {
			e = fmt.Sprintf("(div %s %s)", e, pow2(lo))
		}
		if hi < t.Args[0].Sort-1 {
			e = fmt.Sprintf("(mod %s %s)", e, pow2(hi-lo+1))
		}
		s.def(t, true, e)
	case "bvand":
		if t.Args[1].Op == "const" {
			if k, ok := isPow2Mask(t.Args[1].Val); ok {
				s.def(t, true, fmt.Sprintf("(mod %s %s)", a(0), pow2(k)))
				return
			}
		}
		if t.Args[0].Op == "const" {
			if k, ok := isPow2Mask(t.Args[0].Val); ok {
				s.def(t, true, fmt.Sprintf("(mod %s %s)", a(1), pow2(k)))
				return
			}
		}
		s.abstract(t)
	case "bvshl":
		if t.Args[1].Op == "const" && t.Args[1].Val < uint64(n) {
			s.def(t, true, fmt.Sprintf("(mod (* %s %s) %s)", a(0), pow2(int(t.Args[1].Val)), pow2(n)))
			return
		}
		s.abstract(t)
	case "bvlshr":
		if t.Args[1].Op == "const" && t.Args[1].Val < uint64(n) {
			s.def(t, true, fmt.Sprintf("(div %s %s)", a(0), pow2(int(t.Args[1].Val))))
			return
		}
		s.abstract(t)
	case "bvashr":
		if t.Args[1].Op == "const" && t.Args[1].Val < uint64(n) {
			// floor division of the signed value, back to the unsigned representative
			s.def(t, true, fmt.Sprintf("(mod (div %s %s) %s)", s.signed(a(0), n), pow2(int(t.Args[1].Val)), pow2(n)))
			return
		}
		s.abstract(t)
	default:
		s.abstract(t)
	}
}

// scriptLIA renders the integer encoding of obligation o over hypotheses hyps.
func (x *Exec) scriptLIA(o *Oblig, hyps []*Term) string {
	s := &liaScript{tb: x.tb, names: map[int]string{}, declV: map[string]bool{}, declF: map[string]bool{}, ranged: map[string]bool{}}
	for _, h := range hyps {
		fmt.Fprintf(&s.body, "(assert %s)\n", s.tr(h))
	}
	fmt.Fprintf(&s.body, "(assert %s)\n", s.tr(o.PC))
	fmt.Fprintf(&s.body, "(assert %s)\n", s.tr(x.tb.Not(o.Goal)))
	return "(set-logic ALL)\n" + s.decls.String() + s.body.String() + "(check-sat)\n"
}
