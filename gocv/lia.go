package main

// Second encoding of an obligation: integers.  Every bit-vector term t of width n is
// translated to an integer expression I(t) with 0 <= I(t) < 2^n.  The translation is EXACT
// for constants, variables, uninterpreted applications, +, -, negation, multiplication by
// a constant, zero/sign extension, extraction, shifts by constants, masks 2^k-1, ite, = and
// the four comparisons (modular semantics via mod/div by constants, which are linear); any
// other operator (and/or/xor with non-mask operands, shifts by non-constants, general
// multiplication, division) is abstracted by a fresh integer variable per distinct term,
// constrained only to its range.  Abstraction can only lose information, so
//
//	unsat(integer script)  ==>  unsat(bit-vector script)
//
// and an `unsat` from this encoding discharges the obligation; `sat`/`unknown` mean nothing
// and fall through to the bit-vector solvers.  This is what makes the length/offset
// arithmetic (sums of sizes against buffer lengths) cheap: bit-blasting 64-bit adders and
// comparators is what the solvers time out on.

import (
	"fmt"
	"math/big"
	"strings"
)

type liaScript struct {
	tb     *TB
	decls  strings.Builder
	body   strings.Builder
	names  map[int]string // term id -> SMT name of its translation
	declV  map[string]bool
	declF  map[string]bool
	nabs   int
	ranged map[string]bool
	ub     map[int]*big.Int // upper bounds of terms implied by unit hypotheses
	ubMemo map[int]*big.Int
}

func maxOf(n int) *big.Int {
	return new(big.Int).Sub(new(big.Int).Lsh(big.NewInt(1), uint(n)), big.NewInt(1))
}

// learnBound records the upper bound a unit hypothesis h gives some term.
func (s *liaScript) learnBound(h *Term) {
	set := func(t *Term, b *big.Int) {
		if old, ok := s.ub[t.id]; !ok || b.Cmp(old) < 0 {
			s.ub[t.id] = b
		}
	}
	switch h.Op {
	case "=":
		for k := 0; k < 2; k++ {
			l, r := h.Args[k], h.Args[1-k]
			if l.Op == "extract" && r.IsConst() && r.Val == 0 && l.P1 == l.Args[0].Sort-1 && l.P2 > 0 {
				set(l.Args[0], maxOf(l.P2))
			}
		}
	case "bvule":
		if h.Args[1].IsConst() {
			set(h.Args[0], new(big.Int).SetUint64(h.Args[1].Val))
		}
	case "bvult":
		if h.Args[1].IsConst() && h.Args[1].Val > 0 {
			set(h.Args[0], new(big.Int).SetUint64(h.Args[1].Val-1))
		}
	case "not":
		a := h.Args[0]
		if a.Op == "bvult" && a.Args[0].IsConst() { // not (c < t): t <= c
			set(a.Args[1], new(big.Int).SetUint64(a.Args[0].Val))
		}
		if a.Op == "bvule" && a.Args[0].IsConst() && a.Args[0].Val > 0 { // not (c <= t): t < c
			set(a.Args[1], new(big.Int).SetUint64(a.Args[0].Val-1))
		}
	}
}

// bound: an upper bound of the unsigned value of t (under the unit hypotheses).
func (s *liaScript) bound(t *Term) *big.Int {
	if b, ok := s.ubMemo[t.id]; ok {
		return b
	}
	n := t.Sort
	full := maxOf(n)
	b := full
	switch t.Op {
	case "const":
		b = new(big.Int).SetUint64(t.Val)
	case "zext":
		b = s.bound(t.Args[0])
	case "ite":
		x, y := s.bound(t.Args[1]), s.bound(t.Args[2])
		if x.Cmp(y) > 0 {
			b = x
		} else {
			b = y
		}
	case "bvadd":
		b = new(big.Int).Add(s.bound(t.Args[0]), s.bound(t.Args[1]))
	case "bvmul":
		if t.Args[0].Op == "const" {
			b = new(big.Int).Mul(new(big.Int).SetUint64(t.Args[0].Val), s.bound(t.Args[1]))
		} else if t.Args[1].Op == "const" {
			b = new(big.Int).Mul(new(big.Int).SetUint64(t.Args[1].Val), s.bound(t.Args[0]))
		}
	case "extract":
		if t.P2 == 0 {
			b = s.bound(t.Args[0])
		}
	case "bvand":
		x, y := s.bound(t.Args[0]), s.bound(t.Args[1])
		if x.Cmp(y) < 0 {
			b = x
		} else {
			b = y
		}
	case "bvlshr":
		b = s.bound(t.Args[0])
	}
	if b.Cmp(full) > 0 {
		b = full
	}
	if u, ok := s.ub[t.id]; ok && u.Cmp(b) < 0 {
		b = u
	}
	s.ubMemo[t.id] = b
	return b
}

// fits: the exact (unbounded) sum/product stays below 2^n, so no reduction is needed.
func fitsIn(b *big.Int, n int) bool { return b.Cmp(maxOf(n)) <= 0 }

var _ = fitsIn

func pow2(n int) string {
	return new(big.Int).Lsh(big.NewInt(1), uint(n)).String()
}

func (s *liaScript) rangeOf(name string, n int) {
	if s.ranged[name] {
		return
	}
	s.ranged[name] = true
	fmt.Fprintf(&s.body, "(assert (and (<= 0 %s) (< %s %s)))\n", name, name, pow2(n))
}

func isPow2Mask(v uint64) (int, bool) {
	// v == 2^k - 1, k >= 1
	if v == 0 {
		return 0, false
	}
	if v&(v+1) != 0 {
		return 0, false
	}
	k := 0
	for v != 0 {
		k++
		v >>= 1
	}
	return k, true
}

func (s *liaScript) def(t *Term, sortInt bool, expr string) string {
	name := fmt.Sprintf("i%d", t.id)
	srt := "Bool"
	if sortInt {
		srt = "Int"
	}
	fmt.Fprintf(&s.body, "(define-fun %s () %s %s)\n", name, srt, expr)
	s.names[t.id] = name
	return name
}

func (s *liaScript) signed(x string, n int) string {
	return fmt.Sprintf("(ite (>= %s %s) (- %s %s) %s)", x, pow2(n-1), x, pow2(n), x)
}

// signedT: the signed reading of term t (translated as x); plain x when t is known to be
// below 2^(n-1).
func (s *liaScript) signedT(t *Term, x string) string {
	n := t.Sort
	if s.bound(t).Cmp(maxOf(n-1)) <= 0 {
		return x
	}
	return s.signed(x, n)
}

// tr translates a term (iteratively over the DAG).
func (s *liaScript) tr(root *Term) string {
	type frame struct {
		t *Term
		i int
	}
	stack := []frame{{root, 0}}
	for len(stack) > 0 {
		f := &stack[len(stack)-1]
		if _, ok := s.names[f.t.id]; ok {
			stack = stack[:len(stack)-1]
			continue
		}
		if f.i < len(f.t.Args) {
			a := f.t.Args[f.i]
			f.i++
			if _, ok := s.names[a.id]; !ok {
				stack = append(stack, frame{a, 0})
			}
			continue
		}
		s.one(f.t)
		stack = stack[:len(stack)-1]
	}
	return s.names[root.id]
}

func (s *liaScript) abstract(t *Term) {
	s.nabs++
	name := fmt.Sprintf("abs%d", t.id)
	if t.Sort == 0 {
		fmt.Fprintf(&s.decls, "(declare-fun %s () Bool)\n", name)
	} else {
		fmt.Fprintf(&s.decls, "(declare-fun %s () Int)\n", name)
		s.rangeOf(name, t.Sort)
	}
	s.names[t.id] = name
}

func (s *liaScript) one(t *Term) {
	a := func(i int) string { return s.names[t.Args[i].id] }
	n := t.Sort
	switch t.Op {
	case "true", "false":
		s.names[t.id] = t.Op
	case "const":
		s.names[t.id] = fmt.Sprintf("%d", t.Val)
	case "var":
		nm := smtName("v_" + t.Name)
		if !s.declV[nm] {
			s.declV[nm] = true
			if n == 0 {
				fmt.Fprintf(&s.decls, "(declare-fun %s () Bool)\n", nm)
			} else {
				fmt.Fprintf(&s.decls, "(declare-fun %s () Int)\n", nm)
				s.rangeOf(nm, n)
			}
		}
		s.names[t.id] = nm
	case "uf":
		nm := smtName("f_" + t.Name)
		if !s.declF[nm] {
			s.declF[nm] = true
			d := s.tb.ufs[t.Name]
			var as []string
			for _, x := range d.args {
				if x == 0 {
					as = append(as, "Bool")
				} else {
					as = append(as, "Int")
				}
			}
			r := "Int"
			if d.ret == 0 {
				r = "Bool"
			}
			fmt.Fprintf(&s.decls, "(declare-fun %s (%s) %s)\n", nm, strings.Join(as, " "), r)
		}
		var as []string
		for i := range t.Args {
			as = append(as, a(i))
		}
		name := s.def(t, n != 0, fmt.Sprintf("(%s %s)", nm, strings.Join(as, " ")))
		if n != 0 {
			s.rangeOf(name, n)
		}
	case "not":
		s.def(t, false, fmt.Sprintf("(not %s)", a(0)))
	case "and", "or":
		var as []string
		for i := range t.Args {
			as = append(as, a(i))
		}
		s.def(t, false, fmt.Sprintf("(%s %s)", t.Op, strings.Join(as, " ")))
	case "ite":
		s.def(t, n != 0, fmt.Sprintf("(ite %s %s %s)", a(0), a(1), a(2)))
	case "=":
		s.def(t, false, fmt.Sprintf("(= %s %s)", a(0), a(1)))
	case "bvult":
		s.def(t, false, fmt.Sprintf("(< %s %s)", a(0), a(1)))
	case "bvule":
		s.def(t, false, fmt.Sprintf("(<= %s %s)", a(0), a(1)))
	case "bvslt", "bvsle":
		w := t.Args[0].Sort
		op := "<"
		if t.Op == "bvsle" {
			op = "<="
		}
		_ = w
		s.def(t, false, fmt.Sprintf("(%s %s %s)", op, s.signedT(t.Args[0], a(0)), s.signedT(t.Args[1], a(1))))
	case "bvadd":
		if new(big.Int).Add(s.bound(t.Args[0]), s.bound(t.Args[1])).Cmp(maxOf(n)) <= 0 {
			s.def(t, true, fmt.Sprintf("(+ %s %s)", a(0), a(1)))
			return
		}
		s.def(t, true, fmt.Sprintf("(mod (+ %s %s) %s)", a(0), a(1), pow2(n)))
	case "bvsub":
		s.def(t, true, fmt.Sprintf("(mod (- %s %s) %s)", a(0), a(1), pow2(n)))
	case "bvneg":
		s.def(t, true, fmt.Sprintf("(mod (- %s) %s)", a(0), pow2(n)))
	case "bvmul":
		switch {
		case t.Args[0].Op == "const":
			if new(big.Int).Mul(new(big.Int).SetUint64(t.Args[0].Val), s.bound(t.Args[1])).Cmp(maxOf(n)) <= 0 {
				s.def(t, true, fmt.Sprintf("(* %d %s)", t.Args[0].Val, a(1)))
				return
			}
			s.def(t, true, fmt.Sprintf("(mod (* %d %s) %s)", t.Args[0].Val, a(1), pow2(n)))
		case t.Args[1].Op == "const":
			if new(big.Int).Mul(new(big.Int).SetUint64(t.Args[1].Val), s.bound(t.Args[0])).Cmp(maxOf(n)) <= 0 {
				s.def(t, true, fmt.Sprintf("(* %d %s)", t.Args[1].Val, a(0)))
				return
			}
			s.def(t, true, fmt.Sprintf("(mod (* %d %s) %s)", t.Args[1].Val, a(0), pow2(n)))
		default:
			s.abstract(t)
		}
	case "zext":
		s.names[t.id] = a(0)
	case "sext":
		w := t.Args[0].Sort
		s.def(t, true, fmt.Sprintf("(ite (>= %s %s) (+ %s %s) %s)", a(0), pow2(w-1), a(0), new(big.Int).Sub(new(big.Int).Lsh(big.NewInt(1), uint(n)), new(big.Int).Lsh(big.NewInt(1), uint(w))).String(), a(0)))
	case "extract":
		hi, lo := t.P1, t.P2
		e := a(0)
		if lo > 0 {
			e = fmt.Sprintf("(div %s %s)", e, pow2(lo))
		}
		if hi < t.Args[0].Sort-1 {
			e = fmt.Sprintf("(mod %s %s)", e, pow2(hi-lo+1))
		}
		s.def(t, true, e)
	case "bvand":
		if t.Args[1].Op == "const" {
			if k, ok := isPow2Mask(t.Args[1].Val); ok {
				s.def(t, true, fmt.Sprintf("(mod %s %s)", a(0), pow2(k)))
				return
			}
		}
		if t.Args[0].Op == "const" {
			if k, ok := isPow2Mask(t.Args[0].Val); ok {
				s.def(t, true, fmt.Sprintf("(mod %s %s)", a(1), pow2(k)))
				return
			}
		}
		s.abstract(t)
	case "bvshl":
		if t.Args[1].Op == "const" && t.Args[1].Val < uint64(n) {
			s.def(t, true, fmt.Sprintf("(mod (* %s %s) %s)", a(0), pow2(int(t.Args[1].Val)), pow2(n)))
			return
		}
		s.abstract(t)
	case "bvlshr":
		if t.Args[1].Op == "const" && t.Args[1].Val < uint64(n) {
			s.def(t, true, fmt.Sprintf("(div %s %s)", a(0), pow2(int(t.Args[1].Val))))
			return
		}
		s.abstract(t)
	case "bvashr":
		if t.Args[1].Op == "const" && t.Args[1].Val < uint64(n) {
			// floor division of the signed value, back to the unsigned representative
			s.def(t, true, fmt.Sprintf("(mod (div %s %s) %s)", s.signed(a(0), n), pow2(int(t.Args[1].Val)), pow2(n)))
			return
		}
		s.abstract(t)
	default:
		s.abstract(t)
	}
}

// scriptLIA renders the integer encoding of obligation o over hypotheses hyps.
func (x *Exec) scriptLIA(o *Oblig, hyps []*Term) string {
	s := &liaScript{tb: x.tb, names: map[int]string{}, declV: map[string]bool{}, declF: map[string]bool{}, ranged: map[string]bool{}, ub: map[int]*big.Int{}, ubMemo: map[int]*big.Int{}}
	for _, h := range hyps {
		s.learnBound(h)
	}
	for _, h := range conjuncts(o.PC, nil) {
		s.learnBound(h)
	}
	for _, h := range hyps {
		fmt.Fprintf(&s.body, "(assert %s)\n", s.tr(h))
	}
	fmt.Fprintf(&s.body, "(assert %s)\n", s.tr(o.PC))
	fmt.Fprintf(&s.body, "(assert %s)\n", s.tr(x.tb.Not(o.Goal)))
	return "(set-logic ALL)\n" + s.decls.String() + s.body.String() + "(check-sat)\n"
}
