package main

// Verification units: a function under contract (body checked against its own contract)
// or a lemma harness (a ghost client program whose assertions are proved from the
// contracts of the functions it calls).

import (
	"fmt"
	"go/types"
	"sort"
	"strings"

	"golang.org/x/tools/go/ssa"
)

type UnitResult struct {
	Name      string
	Kind      string // "function" | "lemma" | "bounded-harness"
	Bounded   string
	Obligs    []*Oblig
	Unsup     []string
	Errs      []string
	Calls     map[string]int
	Trusted   []string
	Contracts []string
	Inputs    []inputSym
	exec      *Exec
	fn        *ssa.Function
	con       *Contract
	qroots    []*qnode
}

func (w *World) newExec(unit string) *Exec {
	x := &Exec{w: w, tb: NewTB(), unit: unit, factSeen: map[int]bool{}, strlits: map[string]uint64{}, calls: map[string]int{},
		trusted: map[string]bool{}, bases: map[string]*Mem{}, epochBases: map[string]*Mem{}, boxes: map[int]*Val{},
		ifaceUsed: map[string]types.Type{}, boxedErr: map[int]bool{}, usedContracts: map[string]bool{}, globals: map[string]uint64{}}
	return x
}

// knownGlobal: package-level error variables are constant, non-nil and pairwise distinct
// (trusted: never reassigned; checked syntactically for the packages under verification).
func (x *Exec) knownGlobal(g *ssa.Global) *Val {
	pt := g.Type().Underlying().(*types.Pointer).Elem()
	if !types.Identical(pt, types.Universe.Lookup("error").Type()) {
		return nil
	}
	name := g.Pkg.Pkg.Path() + "." + g.Name()
	id, ok := x.globals[name]
	if !ok {
		id = uint64(1<<62) + uint64(len(x.globals)+1)*16
		x.globals[name] = id
	}
	x.trusted["package-level error variable is constant and non-nil: "+name] = true
	return &Val{T: pt, C: []*Term{x.tb.BV(32, x.w.namedTypeID("*errors.errorString")), x.tb.BV(64, id)}}
}

// VerifyUnit symbolically executes fn and collects its obligations.
func (w *World) VerifyUnit(fn *ssa.Function, con *Contract) *UnitResult {
	name := fn.String()
	if con != nil {
		name = con.Key
	}
	name = strings.ReplaceAll(name, "github.com/CrowdStrike/csproto", "csproto")
	x := w.newExec(name)
	x.unitFn = fn
	res := &UnitResult{Name: name, Kind: "lemma", exec: x, fn: fn, con: con}
	if con != nil && con.Harness {
		// a harness with directives: verified like a lemma harness
		res.Kind = "bounded-harness"
		res.Bounded = con.Bounded
		x.inlineNames = map[string]bool{}
		for _, n := range con.Inlines {
			x.inlineNames[n] = true
		}
		x.abstracted = map[string]bool{}
		for _, n := range con.Abstracts {
			x.abstracted[n] = true
		}
		x.cutLoops = con.Cuts
		x.outerUnroll = con.Outer
		x.harnessUnroll = con.UnrollTo
		x.unrollOverride = con.UnrollTo
		con = nil
		res.con = nil
	}
	if con != nil {
		res.Kind = "function"
	}
	fail := func(err error) *UnitResult {
		res.Errs = append(res.Errs, err.Error())
		res.Obligs = x.obligs
		res.Unsup = x.unsup
		return res
	}
	defer func() {
		if r := recover(); r != nil {
			res.Errs = append(res.Errs, fmt.Sprintf("engine panic: %v", r))
			res.Obligs = x.obligs
		}
	}()
	tb := x.tb
	x.top0 = tb.Var("top0", 64)
	x.fact(tb.Cmp("bvult", x.top0, tb.BV(64, calleeBase)))
	st := &State{env: map[ssa.Value]*Val{}, heaps: map[string]*Mem{}, pc: tb.True, base: tb.True, top: tb.BV(64, calleeBase)}
	var args []*Val
	for _, p := range fn.Params {
		v := x.fresh(p.Type(), "in_"+p.Name())
		top0 := x.top0
		for _, f := range x.validity(v, func(r *Term) *Term { tb.MarkLow(r); return tb.Cmp("bvule", r, top0) }) {
			x.fact(f)
		}
		args = append(args, v)
		x.inputs = append(x.inputs, inputSym{p.Name(), v})
	}
	if fn.Signature.Recv() != nil && (con == nil || !con.Nilable) {
		if _, ok := fn.Signature.Recv().Type().Underlying().(*types.Pointer); ok {
			x.assumeIn(st, tb.Ne(args[0].C[0], tb.BV(64, 0)))
		}
	}
	var clos []*Val
	if con != nil {
		for _, rf := range con.Reqs {
			g, err := x.ghostBool(st, rf, args, true)
			if err != nil {
				return fail(err)
			}
			x.assumeIn(st, g)
		}
		for _, ef := range con.Ens {
			c, err := x.ghostCall(st, ef, nil, args)
			if err != nil {
				return fail(err)
			}
			clos = append(clos, c[0])
		}
		locs, err := x.collectFrame(st, con, args)
		if err != nil {
			return fail(err)
		}
		x.frame = locs
		x.hasFrame = !con.NoFrame
		if con.NoFrame {
			x.trusted["no frame specified (writes of the function are not checked against a modifies clause): "+con.Key] = true
		}
		if con.Alloc != nil {
			v, err := x.ghostCall(st, con.Alloc, nil, args)
			if err != nil {
				return fail(err)
			}
			x.allocBound = v[0].C[0]
		}
	}
	// lemma instances requested by the contract (`use lemma(args)`): called by contract
	if con != nil && !con.Trusted {
		for _, uf := range con.Uses {
			_, ns, err := x.runFuncBind(uf, args, nil, st, nil)
			if err != nil {
				return fail(err)
			}
			st.heaps, st.top, st.havocs = ns.heaps, ns.top, ns.havocs
		}
		if con.Decr != nil {
			v, err := x.ghostCall(st, con.Decr, nil, args)
			if err != nil {
				return fail(err)
			}
			x.decrEntry = v[0].C[0]
		}
	}
	// vacuity guard: the assumptions so far must be satisfiable
	x.obligs = append(x.obligs, &Oblig{Name: name + "#pre-sat", Kind: "pre-sat", Func: name, PC: x.full(st), Goal: tb.False, NHyps: len(x.assumes), ExpectSat: true})
	if con != nil && con.Trusted {
		x.trusted["trusted contract (body not verified): "+con.Key] = true
		res.Obligs = x.obligs
		res.Trusted = keys(x.trusted)
		return res
	}
	vals, out, err := x.runFuncBind(fn, args, nil, st, con)
	if err != nil {
		return fail(err)
	}
	if con == nil && !out.pc.IsFalse() {
		// vacuity guard for harnesses: the end of the harness must be reachable under
		// everything assumed on the way
		x.obligs = append(x.obligs, &Oblig{Name: name + "#reach.end", Kind: "reach", Func: name, PC: x.full(out), Goal: tb.False, NHyps: len(x.assumes), ExpectSat: true})
	}
	if con != nil {
		for k, c := range clos {
			g, err := x.callClosureBool(out, c, vals, false)
			if err != nil {
				return fail(err)
			}
			x.oblige(out, "post", fmt.Sprintf("post.%d", k), fn.Pos(), g)
		}
		if !out.pc.IsFalse() {
			x.obligs = append(x.obligs, &Oblig{Name: name + "#reach.return", Kind: "reach", Func: name, PC: x.full(out), Goal: tb.False, NHyps: len(x.assumes), ExpectSat: true})
		}
	}
	res.Obligs = x.obligs
	res.Unsup = x.unsup
	res.Errs = append(res.Errs, x.errs...)
	res.Calls = x.calls
	res.Trusted = keys(x.trusted)
	res.Contracts = keys(x.usedContracts)
	res.Inputs = x.inputs
	return res
}

func keys(m map[string]bool) []string {
	var out []string
	for k := range m {
		out = append(out, k)
	}
	sort.Strings(out)
	return out
}
