package main

// Counterexamples: model extraction for the inputs of a unit, and generation of an
// in-package Go test that rebuilds those inputs, runs the REAL function (or the lemma
// harness, natively) and evaluates the failed contract clause natively.

import (
	"encoding/json"
	"fmt"
	"go/types"
	"math"
	"os"
	"os/exec"
	"path/filepath"
	"sort"
	"strings"

	"golang.org/x/tools/go/ssa"
)

const replayElems = 48 // slice elements read back from a model

type qnode struct {
	t     types.Type
	comps []*Term
	vals  []uint64
	elems []*qnode // slices / strings: first replayElems elements
	ptee  *qnode   // pointers
	flds  []*qnode // structs
	unsup string
}

// entryState is a state over the initial heaps only.
func (x *Exec) entryState() *State {
	return &State{env: map[ssa.Value]*Val{}, heaps: map[string]*Mem{}, pc: x.tb.True, base: x.tb.True, top: x.tb.BV(64, calleeBase)}
}

func (x *Exec) buildQ(st *State, v *Val, depth int) *qnode {
	q := &qnode{t: v.T, comps: v.C}
	if depth > 3 {
		return q
	}
	tb := x.tb
	switch u := v.T.Underlying().(type) {
	case *types.Slice:
		for i := 0; i < replayElems; i++ {
			ev := x.loadRaw(st, &Addr{prefix: elemPrefix(u.Elem()), keys: []*Term{v.C[0], tb.Add(v.C[1], tb.BV(64, uint64(i)))}}, u.Elem())
			q.elems = append(q.elems, x.buildQ(st, ev, depth+1))
		}
	case *types.Basic:
		if u.Info()&types.IsString != 0 {
			bt := types.Typ[types.Uint8]
			for i := 0; i < replayElems; i++ {
				ev := x.loadRaw(st, &Addr{prefix: elemPrefix(bt), keys: []*Term{v.C[0], tb.Add(v.C[1], tb.BV(64, uint64(i)))}}, bt)
				q.elems = append(q.elems, x.buildQ(st, ev, depth+1))
			}
		}
	case *types.Pointer:
		if v.A != nil {
			q.unsup = "interior pointer"
			return q
		}
		et := u.Elem()
		if _, ok := et.Underlying().(*types.Array); ok {
			q.unsup = "pointer to array"
			return q
		}
		pv := x.loadRaw(st, x.addrOf(v, et), et)
		q.ptee = x.buildQ(st, pv, depth+1)
	case *types.Struct:
		off := 0
		for i := 0; i < u.NumFields(); i++ {
			ft := u.Field(i).Type()
			n := len(flatten(ft))
			q.flds = append(q.flds, x.buildQ(st, &Val{T: ft, C: v.C[off : off+n]}, depth+1))
			off += n
		}
	case *types.Interface, *types.Map, *types.Signature, *types.Chan:
		q.unsup = "value of type " + v.T.String()
	}
	return q
}

// loadRaw loads without recording validity facts (model queries only).
func (x *Exec) loadRaw(st *State, a *Addr, t types.Type) *Val {
	cs := flatten(t)
	v := &Val{T: t, C: make([]*Term, len(cs))}
	for i, c := range cs {
		m := x.heap(st, a.prefix+c.suffix, len(a.keys), c.hsort())
		v.C[i] = m.Select(x, a.keys)
	}
	return v
}

func (q *qnode) terms(out []*Term) []*Term {
	out = append(out, q.comps...)
	for _, e := range q.elems {
		out = e.terms(out)
	}
	if q.ptee != nil {
		out = q.ptee.terms(out)
	}
	for _, f := range q.flds {
		out = f.terms(out)
	}
	return out
}

func (q *qnode) fill(vals []uint64) []uint64 {
	q.vals = vals[:len(q.comps)]
	vals = vals[len(q.comps):]
	for _, e := range q.elems {
		vals = e.fill(vals)
	}
	if q.ptee != nil {
		vals = q.ptee.fill(vals)
	}
	for _, f := range q.flds {
		vals = f.fill(vals)
	}
	return vals
}

type goRender struct {
	pkg     *types.Package
	imports map[string]bool
	notes   []string
	arrays  map[uint64]string // backing arrays by model ref, for aliasing inputs
	pre     []string
	n       int
}

func (g *goRender) typeStr(t types.Type) string {
	return types.TypeString(t, func(p *types.Package) string {
		if p == g.pkg {
			return ""
		}
		g.imports[p.Path()] = true
		return p.Name()
	})
}

func (g *goRender) render(q *qnode) (string, bool) {
	if q.unsup != "" {
		g.notes = append(g.notes, "cannot rebuild "+q.unsup)
		return "", false
	}
	ts := g.typeStr(q.t)
	switch u := q.t.Underlying().(type) {
	case *types.Basic:
		switch {
		case u.Info()&types.IsBoolean != 0:
			return fmt.Sprintf("%s(%v)", ts, q.vals[0] != 0), true
		case u.Info()&types.IsString != 0:
			n := q.vals[2]
			if n > 1<<20 {
				g.notes = append(g.notes, fmt.Sprintf("string length %d clamped to 1<<20", n))
				n = 1 << 20
			}
			var bs []string
			for i := uint64(0); i < n && i < uint64(len(q.elems)); i++ {
				bs = append(bs, fmt.Sprintf("%d", q.elems[i].vals[0]))
			}
			if n > uint64(len(q.elems)) {
				return fmt.Sprintf("%s(append([]byte{%s}, make([]byte, %d)...))", ts, strings.Join(bs, ","), n-uint64(len(q.elems))), true
			}
			return fmt.Sprintf("%s([]byte{%s})", ts, strings.Join(bs, ",")), true
		case u.Info()&types.IsFloat != 0:
			g.imports["math"] = true
			if basicBits(u) == 32 {
				return fmt.Sprintf("%s(math.Float32frombits(0x%x))", ts, q.vals[0]), true
			}
			return fmt.Sprintf("%s(math.Float64frombits(0x%x))", ts, q.vals[0]), true
		case u.Info()&types.IsInteger != 0:
			if isSigned(q.t) {
				return fmt.Sprintf("%s(%d)", ts, sext64(q.vals[0], basicBits(u))), true
			}
			return fmt.Sprintf("%s(0x%x)", ts, q.vals[0]), true
		}
	case *types.Slice:
		ref, off, n, c := q.vals[0], q.vals[1], q.vals[2], q.vals[3]
		if ref == 0 {
			return fmt.Sprintf("%s(nil)", ts), true
		}
		if n > 1<<20 {
			g.notes = append(g.notes, fmt.Sprintf("slice length %d clamped to 1<<20", n))
			n = 1 << 20
		}
		if c < n {
			c = n
		}
		if c > n+4096 {
			g.notes = append(g.notes, fmt.Sprintf("slice capacity %d clamped", c))
			c = n + 4096
		}
		var es []string
		for i := uint64(0); i < n && i < uint64(len(q.elems)); i++ {
			s, ok := g.render(q.elems[i])
			if !ok {
				return "", false
			}
			es = append(es, s)
		}
		ets := g.typeStr(u.Elem())
		_ = off
		// aliasing inputs (same model ref) share one backing array when offsets are small
		if name, ok := g.arrays[ref]; ok && off < 1<<16 {
			g.notes = append(g.notes, "aliasing slices share a backing array")
			return fmt.Sprintf("%s(%s[%d:%d:%d])", ts, name, off, off+n, off+c), true
		}
		g.n++
		name := fmt.Sprintf("arr%d", g.n)
		if off < 1<<16 {
			g.pre = append(g.pre, fmt.Sprintf("%s := make([]%s, %d)", name, ets, off+c))
			for i, e := range es {
				g.pre = append(g.pre, fmt.Sprintf("%s[%d] = %s", name, off+uint64(i), e))
			}
			g.arrays[ref] = name
			return fmt.Sprintf("%s(%s[%d:%d:%d])", ts, name, off, off+n, off+c), true
		}
		g.pre = append(g.pre, fmt.Sprintf("%s := make([]%s, %d, %d)", name, ets, n, c))
		for i, e := range es {
			g.pre = append(g.pre, fmt.Sprintf("%s[%d] = %s", name, i, e))
		}
		return fmt.Sprintf("%s(%s)", ts, name), true
	case *types.Pointer:
		if q.vals[0] == 0 {
			return fmt.Sprintf("(%s)(nil)", ts), true
		}
		if q.ptee == nil {
			g.notes = append(g.notes, "pointer too deep")
			return "", false
		}
		s, ok := g.render(q.ptee)
		if !ok {
			return "", false
		}
		g.n++
		name := fmt.Sprintf("obj%d", g.n)
		g.pre = append(g.pre, fmt.Sprintf("%s := %s", name, s))
		return "&" + name, true
	case *types.Struct:
		var fs []string
		for i, f := range q.flds {
			s, ok := g.render(f)
			if !ok {
				return "", false
			}
			fs = append(fs, fmt.Sprintf("%s: %s", u.Field(i).Name(), s))
		}
		return fmt.Sprintf("%s{%s}", ts, strings.Join(fs, ", ")), true
	}
	g.notes = append(g.notes, "cannot rebuild value of type "+q.t.String())
	return "", false
}

// inputQueries lists the terms whose model values describe the unit's inputs.
func (x *Exec) inputQueries(u *UnitResult) ([]string, []*Term) {
	var names []string
	var terms []*Term
	for _, in := range u.Inputs {
		cs := flatten(in.Val.T)
		for i, c := range cs {
			names = append(names, in.Name+c.suffix)
			terms = append(terms, in.Val.C[i])
		}
	}
	return names, terms
}

type Replay struct {
	Property   string   `json:"property"`
	Obligation string   `json:"obligation"`
	Unit       string   `json:"unit"`
	Kind       string   `json:"kind"`
	Pos        string   `json:"pos"`
	Status     string   `json:"solver_status"`
	Solver     string   `json:"solver"`
	Output     string   `json:"solver_output,omitempty"`
	PkgDir     string   `json:"pkg_dir"`
	PkgName    string   `json:"pkg_name"`
	TestSrc    string   `json:"test_src,omitempty"`
	Overlay    []string `json:"overlay_files,omitempty"`
	Inputs     []string `json:"inputs,omitempty"`
	Notes      []string `json:"notes,omitempty"`
	Verdict    string   `json:"verdict"`
	RunOutput  string   `json:"run_output,omitempty"`
	NoInput    bool     `json:"no_failing_input_found"`
}

// sizeBounds returns extra assertions that keep every input slice/string short.
func (x *Exec) sizeBounds(u *UnitResult, bound uint64) []*Term {
	tb := x.tb
	var out []*Term
	var walk func(q *qnode)
	walk = func(q *qnode) {
		switch q.t.Underlying().(type) {
		case *types.Slice:
			out = append(out, tb.Cmp("bvule", q.comps[2], tb.BV(64, bound)), tb.Cmp("bvule", q.comps[1], tb.BV(64, 64)), tb.Cmp("bvule", q.comps[3], tb.BV(64, bound+64)))
		case *types.Basic:
			if isString(q.t) {
				out = append(out, tb.Cmp("bvule", q.comps[2], tb.BV(64, bound)))
			}
		}
		if q.ptee != nil {
			walk(q.ptee)
		}
		for _, f := range q.flds {
			walk(f)
		}
	}
	for _, q := range u.qroots {
		walk(q)
	}
	return out
}

// buildReplay extracts a (small) model for a sat obligation and renders the replay test.
func buildReplay(w *World, u *UnitResult, o *Oblig, so solveOpts) *Replay {
	x := u.exec
	r := &Replay{Obligation: o.Name, Unit: u.Name, Kind: o.Kind, Pos: o.Pos, Status: o.Status, Solver: o.Solver}
	pkg := u.fn.Pkg
	if pkg == nil && u.fn.Origin() != nil {
		pkg = u.fn.Origin().Pkg
	}
	if pkg == nil {
		r.Notes = append(r.Notes, "no package for unit")
		r.NoInput = true
		return r
	}
	r.PkgName = pkg.Pkg.Name()
	r.PkgDir = w.pkgDir[pkg.Pkg.Path()]
	if o.Status != "sat" {
		r.Output = o.Output
		r.NoInput = true
		r.Verdict = "NO-MODEL (" + o.Status + ")"
		return r
	}
	st := x.entryState()
	u.qroots = nil
	for _, in := range u.Inputs {
		u.qroots = append(u.qroots, x.buildQ(st, in.Val, 0))
	}
	var terms []*Term
	for _, q := range u.qroots {
		terms = q.terms(terms)
	}
	var vals []uint64
	got := false
	for _, bound := range []uint64{12, 40, 4096, 0} {
		var extra []*Term
		if bound > 0 {
			extra = x.sizeBounds(u, bound)
		}
		o2 := *o
		o2.Extra = append(append([]*Term{}, o.Extra...), extra...)
		f := filepath.Join(so.tmp, "model.smt2")
		os.WriteFile(f, []byte(x.script(&o2, terms)), 0o644)
		a := raceModel(f, so)
		os.Remove(f)
		if a.status != "sat" {
			continue
		}
		txt := parseGetValue(a.out)
		if len(txt) != len(terms) {
			r.Notes = append(r.Notes, fmt.Sprintf("model has %d values for %d terms", len(txt), len(terms)))
			continue
		}
		vals = make([]uint64, len(txt))
		ok := true
		for i, t := range txt {
			v, pok := parseBV(t)
			if !pok {
				ok = false
			}
			vals[i] = v
		}
		if !ok {
			continue
		}
		if bound == 0 {
			r.Notes = append(r.Notes, "no model with short inputs exists; inputs may be clamped")
		}
		got = true
		break
	}
	if !got {
		r.NoInput = true
		r.Verdict = "NO-MODEL"
		return r
	}
	rest := vals
	for _, q := range u.qroots {
		rest = q.fill(rest)
	}
	g := &goRender{pkg: pkg.Pkg, imports: map[string]bool{"testing": true, "fmt": true}, arrays: map[uint64]string{}}
	var args []string
	for i, q := range u.qroots {
		s, ok := g.render(q)
		if !ok {
			r.Notes = append(r.Notes, g.notes...)
			r.NoInput = true
			r.Verdict = "INPUT-NOT-REBUILDABLE"
			return r
		}
		args = append(args, s)
		r.Inputs = append(r.Inputs, fmt.Sprintf("%s = %s", u.Inputs[i].Name, s))
	}
	r.Notes = append(r.Notes, g.notes...)
	r.TestSrc = renderTest(w, u, o, g, args)
	return r
}

func raceModel(f string, so solveOpts) solverAnswer {
	for _, sd := range []solverDef{solvers[0], solvers[2], solvers[1]} {
		a := runSolver(contextBG(), sd, f, so.timeoutS)
		if a.status == "sat" || a.status == "unsat" {
			return a
		}
	}
	return solverAnswer{status: "unknown"}
}

// renderTest writes the replay test source.
func renderTest(w *World, u *UnitResult, o *Oblig, g *goRender, args []string) string {
	var sb strings.Builder
	fmt.Fprintf(&sb, "package %s\n\n", u.fn.Pkg.Pkg.Name())
	var imps []string
	for p := range g.imports {
		imps = append(imps, p)
	}
	sort.Strings(imps)
	sb.WriteString("import (\n")
	for _, p := range imps {
		fmt.Fprintf(&sb, "\t%q\n", p)
	}
	sb.WriteString(")\n\n")
	fmt.Fprintf(&sb, "// Replay of obligation %s\n// (%s, %s)\n", o.Name, o.Kind, o.Pos)
	sb.WriteString("func TestVerifReplay(t *testing.T) {\n")
	for _, p := range g.pre {
		fmt.Fprintf(&sb, "\t%s\n", p)
	}
	con := u.con
	if con == nil {
		// lemma harness: run it natively
		fmt.Fprintf(&sb, `	defer func() {
		r := recover()
		if r == nil {
			fmt.Println("REPLAY-NOT-REPRODUCED: harness ran to completion")
			return
		}
		if _, skip := r.(gocvSkip); skip {
			fmt.Println("REPLAY-NOT-REPRODUCED: model violates an assumption natively")
			return
		}
		fmt.Printf("REPLAY-CONFIRMED: %%v\n", r)
	}()
	%s(%s)
}
`, u.fn.Name(), strings.Join(args, ", "))
		return sb.String()
	}
	m := "gocv_" + con.Mangled
	for i, a := range args {
		fmt.Fprintf(&sb, "\ta%d := %s\n", i, a)
	}
	var an []string
	for i := range args {
		an = append(an, fmt.Sprintf("a%d", i))
	}
	al := strings.Join(an, ", ")
	for k := range con.ReqText {
		fmt.Fprintf(&sb, "\tif !%s_req%d(%s) {\n\t\tfmt.Println(\"REPLAY-NOT-REPRODUCED: model violates precondition %d natively\")\n\t\treturn\n\t}\n", m, k, al, k)
	}
	for k := range con.EnsText {
		fmt.Fprintf(&sb, "\tpost%d := %s_ens%d(%s)\n\t_ = post%d\n", k, m, k, al, k)
	}
	var rn []string
	for i := range con.ResultNames {
		rn = append(rn, fmt.Sprintf("r%d", i))
	}
	call := ""
	if con.Recv != "" {
		call = fmt.Sprintf("a0.%s(%s)", u.fn.Name(), strings.Join(an[1:], ", "))
	} else {
		call = fmt.Sprintf("%s(%s)", u.fn.Name(), al)
	}
	sb.WriteString("\tfunc() {\n\t\tdefer func() {\n\t\t\tif r := recover(); r != nil {\n\t\t\t\tfmt.Printf(\"REPLAY-CONFIRMED: the call panics: %v\\n\", r)\n\t\t\t\tpanicked = true\n\t\t\t}\n\t\t}()\n")
	if len(rn) > 0 {
		fmt.Fprintf(&sb, "\t\t%s = %s\n", strings.Join(rn, ", "), call)
	} else {
		fmt.Fprintf(&sb, "\t\t%s\n", call)
	}
	sb.WriteString("\t}()\n\tif panicked {\n\t\treturn\n\t}\n")
	for k := range con.EnsText {
		fmt.Fprintf(&sb, "\tif !post%d(%s) {\n\t\tfmt.Println(\"REPLAY-CONFIRMED: postcondition %d is false: %s\")\n\t\treturn\n\t}\n", k, strings.Join(rn, ", "), k, strings.ReplaceAll(con.EnsText[k], "\"", "'"))
	}
	sb.WriteString("\tfmt.Println(\"REPLAY-NOT-REPRODUCED: the call returned and every postcondition holds\")\n}\n")
	// declare results and panicked before the closure: patch in
	decl := "\tpanicked := false\n"
	if len(rn) > 0 {
		sig := u.fn.Signature.Results()
		for i := 0; i < sig.Len(); i++ {
			decl += fmt.Sprintf("\tvar r%d %s\n", i, g.typeStr(sig.At(i).Type()))
		}
	}
	s := sb.String()
	marker := "\tfunc() {\n\t\tdefer func() {"
	s = strings.Replace(s, marker, decl+marker, 1)
	return s
}

// runReplay executes the replay test against the real code through an overlay.
func runReplay(w *World, r *Replay, tmp string) {
	if r.TestSrc == "" {
		return
	}
	dir := r.PkgDir
	ov := map[string]string{}
	write := func(name string, data []byte) string {
		p := filepath.Join(tmp, strings.ReplaceAll(name, "/", "_"))
		os.WriteFile(p, data, 0o644)
		return p
	}
	k := 0
	for path, data := range w.overlay {
		// every overlay file: harnesses may import overlay-only packages (protowire copy)
		k++
		ov[path] = write(fmt.Sprintf("ov%d_%s", k, filepath.Base(path)), data)
	}
	ov[filepath.Join(dir, "zz_gocv_replay_test.go")] = write("replay_test.go", []byte(r.TestSrc))
	b, _ := json.Marshal(map[string]any{"Replace": ov})
	ovf := filepath.Join(tmp, "overlay.json")
	os.WriteFile(ovf, b, 0o644)
	cmd := exec.Command("go", "test", "-overlay", ovf, "-vet=off", "-count=1", "-v", "-timeout", "60s", "-run", "^TestVerifReplay$", ".")
	cmd.Dir = dir
	cmd.Env = append(os.Environ(), "GOFLAGS=-mod=mod", "GOPROXY=off", "GOSUMDB=off", "GOTOOLCHAIN=local")
	out, _ := cmd.CombinedOutput()
	r.RunOutput = string(out)
	switch {
	case strings.Contains(r.RunOutput, "REPLAY-CONFIRMED"):
		r.Verdict = "REPLAY-CONFIRMED"
	case strings.Contains(r.RunOutput, "REPLAY-NOT-REPRODUCED"):
		r.Verdict = "REPLAY-NOT-REPRODUCED"
		r.NoInput = true
	default:
		r.Verdict = "REPLAY-ERROR"
		r.NoInput = true
	}
}

var _ = math.MaxInt
