package main

// inputQueries lists the terms whose model values describe the unit's inputs.
func (x *Exec) inputQueries(u *UnitResult) ([]string, []*Term) {
	var names []string
	var terms []*Term
	for _, in := range u.Inputs {
		cs := flatten(in.Val.T)
		for i, c := range cs {
			names = append(names, in.Name+c.suffix)
			terms = append(terms, in.Val.C[i])
		}
	}
	return names, terms
}
